//go:build verif

package main

import (
	"context"
	"encoding/json"
	"fmt"

	"github.com/ipfs/boxo/verifshim/eng"
	blocks "github.com/ipfs/go-block-format"
	cid "github.com/ipfs/go-cid"
)

// words returns all words of length 0..n over alphabet.
func words(alphabet []string, n int) [][]string {
	out := [][]string{{}}
	level := [][]string{{}}
	for l := 1; l <= n; l++ {
		var next [][]string
		for _, w := range level {
			for _, a := range alphabet {
				next = append(next, append(append([]string{}, w...), a))
			}
		}
		out = append(out, next...)
		level = next
	}
	return out
}

func runCase(c caseT) (*eng.Violation, string, *world) {
	w := newWorld(c)
	var req []cid.Cid
	for _, n := range c.Req {
		req = append(req, cids[n])
	}
	ctx, g := w.getter(context.Background(), c.Entry)
	var got []rx
	var gbErr error
	if pv := eng.Guard(c.Call, func() {
		if c.Call == "GetBlock" {
			var b blocks.Block
			b, gbErr = g.GetBlock(ctx, req[0])
			if gbErr == nil {
				got = append(got, w.observe(b))
			}
		} else {
			got = w.drain(g.GetBlocks(ctx, req))
		}
	}); pv != nil {
		pv.Features = map[string]string{"call": c.Call, "entry": c.Entry}
		pv.Detail = c.String() + "\n" + pv.Detail
		return pv, "panic", w
	}
	return judge(c, w, req, got, gbErr), outcome(got, gbErr, w), w
}

func seqCases(thorough bool) []caseT {
	var cs []caseT
	reqAlpha := []string{"A", "B", "C", "I"}
	ansAlpha := []string{"B", "C", "D", "Bbad", "Xbad"}
	nReq, nAns := 3, 2
	if thorough {
		reqAlpha = []string{"A", "A2", "B", "C", "I", "U"}
		nReq, nAns = 4, 3
	}
	type ent struct {
		entry  string
		sessEx bool
	}
	ents := []ent{{"direct", false}, {"session", true}, {"session", false}, {"ctxsession", true}}
	if thorough {
		ents = append(ents, ent{"direct", true}, ent{"ctxsession", false})
	}
	reqs := words(reqAlpha, nReq)
	scripts := words(ansAlpha, nAns)
	for _, e := range ents {
		for _, rq := range reqs {
			for _, sc := range scripts {
				cs = append(cs, caseT{Entry: e.entry, SessEx: e.sessEx, Call: "GetBlocks", Req: rq, Script: sc})
			}
			cs = append(cs, caseT{Entry: e.entry, SessEx: e.sessEx, Call: "GetBlocks", Req: rq, CallErr: true})
			cs = append(cs, caseT{Entry: e.entry, SessEx: e.sessEx, Call: "GetBlocks", Req: rq, NoEx: true})
		}
		for _, rq := range []string{"A", "A2", "B", "C", "I", "U"} {
			for _, a := range ansAlpha {
				cs = append(cs, caseT{Entry: e.entry, SessEx: e.sessEx, Call: "GetBlock", Req: []string{rq}, Script: []string{a}})
			}
			cs = append(cs, caseT{Entry: e.entry, SessEx: e.sessEx, Call: "GetBlock", Req: []string{rq}, CallErr: true})
			cs = append(cs, caseT{Entry: e.entry, SessEx: e.sessEx, Call: "GetBlock", Req: []string{rq}, NoEx: true})
		}
	}
	return cs
}

func nonTrivial(c caseT) bool {
	if c.NoEx || c.CallErr {
		return false
	}
	remote := false
	for _, r := range c.Req {
		if r == "B" || r == "C" {
			remote = true
		}
	}
	return remote && len(c.Script) > 0
}

func exploreSeq(r *eng.Run) {
	cs := seqCases(r.Thorough())
	r.Set("seq_cases", len(cs))
	eng.ParFor(len(cs), func(i int) {
		if r.Expired() {
			return
		}
		c := cs[i]
		v, out, w := runCase(c)
		r.Eval(1)
		r.Outcome(c.Call + ":" + out)
		if nonTrivial(c) {
			b, _ := json.Marshal(c)
			r.Distinct(string(b))
		}
		if len(w.x.reqs) > 0 {
			r.Add("seq_cases_reaching_the_exchange", 1)
		}
		if i%997 == 0 {
			r.Sample(map[string]any{"case": c, "outcome": out})
		}
		if v != nil {
			v.Replay = c
			r.Report(v)
		}
	})
	if r.Expired() {
		r.Incomplete("budget expired during the sequential enumeration")
	}
}

func replaySeq(r *eng.Run, raw json.RawMessage) {
	var c caseT
	if err := json.Unmarshal(raw, &c); err != nil {
		fmt.Println("bad replay:", err)
		return
	}
	v, out, w := runCase(c)
	fmt.Printf("  case: %s\n  outcome: %s\n  exchange requests: %d, store puts: %d\n", c, out, len(w.x.reqs), len(w.st.puts))
	for _, q := range w.x.reqs {
		fmt.Print("  exchange asked for:")
		for _, k := range q {
			fmt.Print(" ", nameOf(k))
		}
		fmt.Println()
	}
	for _, p := range w.st.puts {
		fmt.Println("  store.Put", nameOf(p), "bytes:", storeBytes(w, p))
	}
	r.Eval(1)
	if v != nil {
		v.Replay = c
		r.Report(v)
	} else {
		fmt.Println("  replay: no violation")
	}
}
