//go:build verif

package main

import (
	"encoding/json"
	"os"

	"github.com/ipfs/boxo/verifshim/eng"
	"github.com/ipfs/boxo/verifshim/vexp"
)

func main() {
	eng.WorkerMain = func() { vexp.Register(concScenarios(true)...); eng.WorkerMain() }
	eng.Main("C05", "model_checking", func(r *eng.Run) {
		r.Rule("(1) sequential: the full product of request words (length <= 3 quick / 4 thorough over {local A, local A2, remote B, remote C, md5 CID, cid.Undef}, duplicates included) x exchange answer scripts (every sequence of length <= 2 / 3 over {B, C, unrequested D, CID of B with forged bytes, unrequested CID with forged bytes}, then channel close; plus exchange error and no exchange) x entry points (direct, NewSession, context-embedded session; session-capable exchange or not), for GetBlocks and GetBlock; non-trivial = a remote block is requested and the exchange answers something. (2) concurrent: every schedule with <= B deviations of caller/consumer thread vs getBlocks goroutine vs exchange producer thread (+ canceller thread, + injected blockstore Put failure, + a second concurrent call on a shared session); non-trivial = >= 1 deviation")
		r.Assume("recording blockstore and scripted exchange are harness fakes; the blockstore answers like the default one")
		r.Assume("GetBlocks completeness is not demanded (the statement only restricts what may be emitted); GetBlock of a locally stored block must succeed")
		if os.Getenv("VERIF_SKIP_SEQ") == "" { // debugging aid only
			exploreSeq(r)
		}
		if !r.Expired() {
			vexp.Explore(r, concScenarios(r.Thorough()), vexp.Options{Bound: eng.Pick(r, 2, 3)})
		} else {
			r.Incomplete("budget expired before the concurrent part")
		}
	}, func(r *eng.Run, raw json.RawMessage) {
		var probe struct {
			Scenario string `json:"scenario"`
		}
		json.Unmarshal(raw, &probe)
		if probe.Scenario != "" {
			vexp.Replay(r, concScenarios(true), raw)
			return
		}
		replaySeq(r, raw)
	})
}
