//go:build verif

package main

import (
	"context"
	"errors"
	"sync"

	"github.com/ipfs/boxo/exchange"
	"github.com/ipfs/boxo/verifshim/vsched"
	blocks "github.com/ipfs/go-block-format"
	cid "github.com/ipfs/go-cid"
	ipld "github.com/ipfs/go-ipld-format"
)

var errX = errors.New("injected exchange error")
var errPut = errors.New("injected blockstore Put failure")

// ---- recording blockstore (multihash-keyed map, answers like the default blockstore) ----

type rstore struct {
	mu      sync.Mutex // sequential mode runs the getBlocks goroutine natively; never held across a scheduling point
	m       map[string][]byte
	gets    []cid.Cid
	puts    []cid.Cid
	putLog  []putEv // every successful Put in order (what was in the store at some earlier moment)
	failPut bool    // concurrent mode: Put may fail as an environment choice
}

type putEv struct {
	key  string
	data string
}

// wasPut reports whether a Put of exactly these bytes under this CID has completed.
func (s *rstore) wasPut(c cid.Cid, data []byte) bool {
	s.mu.Lock()
	defer s.mu.Unlock()
	for _, e := range s.putLog {
		if e.key == skey(c) && e.data == string(data) {
			return true
		}
	}
	return false
}

func newStore() *rstore { return &rstore{m: map[string][]byte{}} }

func skey(c cid.Cid) string { return string(c.Hash()) }

func (s *rstore) has(c cid.Cid) ([]byte, bool) {
	s.mu.Lock()
	defer s.mu.Unlock()
	d, ok := s.m[skey(c)]
	return d, ok
}

func (s *rstore) Get(ctx context.Context, c cid.Cid) (blocks.Block, error) {
	vsched.Yield("store.Get")
	defer vsched.Yield("store.Get.ret")
	s.mu.Lock()
	defer s.mu.Unlock()
	s.gets = append(s.gets, c)
	if !c.Defined() {
		return nil, ipld.ErrNotFound{Cid: c}
	}
	d, ok := s.m[skey(c)]
	if !ok {
		return nil, ipld.ErrNotFound{Cid: c}
	}
	return blocks.NewBlockWithCid(append([]byte{}, d...), c)
}

func (s *rstore) Put(ctx context.Context, b blocks.Block) error {
	vsched.Yield("store.Put")
	defer vsched.Yield("store.Put.ret")
	if s.failPut && vsched.Choose(2, 1) == 1 {
		return errPut
	}
	s.mu.Lock()
	defer s.mu.Unlock()
	s.puts = append(s.puts, b.Cid())
	s.putLog = append(s.putLog, putEv{skey(b.Cid()), string(b.RawData())})
	s.m[skey(b.Cid())] = append([]byte{}, b.RawData()...)
	return nil
}

func (s *rstore) PutMany(ctx context.Context, bs []blocks.Block) error {
	for _, b := range bs {
		if err := s.Put(ctx, b); err != nil {
			return err
		}
	}
	return nil
}

func (s *rstore) Has(ctx context.Context, c cid.Cid) (bool, error) {
	vsched.Yield("store.Has")
	_, ok := s.has(c)
	return ok, nil
}

func (s *rstore) GetSize(ctx context.Context, c cid.Cid) (int, error) {
	d, ok := s.has(c)
	if !ok {
		return -1, ipld.ErrNotFound{Cid: c}
	}
	return len(d), nil
}

func (s *rstore) DeleteBlock(ctx context.Context, c cid.Cid) error {
	s.mu.Lock()
	defer s.mu.Unlock()
	delete(s.m, skey(c))
	return nil
}

func (s *rstore) AllKeysChan(ctx context.Context) (<-chan cid.Cid, error) {
	return nil, errors.New("not used")
}

// ---- scripted exchange ----

// answer is one thing the exchange hands back.
type answer struct {
	kind string // honest | unrequested | wrong_hash | unrequested_wrong_hash
	name string
	blk  blocks.Block
}

type xfake struct {
	mu       sync.Mutex
	script   []answer    // GetBlocks: delivered in this order
	ending   string      // close | hang (keeps the channel open until the context is done)
	callErr  bool        // GetBlocks / GetBlock return an error
	reqs     [][]cid.Cid // every fetch request (GetBlock, GetBlocks, session or not)
	sessions int
	notified []cid.Cid
}

func (x *xfake) logReq(ks []cid.Cid) {
	x.mu.Lock()
	x.reqs = append(x.reqs, append([]cid.Cid{}, ks...))
	x.mu.Unlock()
}

func (x *xfake) GetBlock(ctx context.Context, c cid.Cid) (blocks.Block, error) {
	vsched.Yield("exchange.GetBlock")
	defer vsched.Yield("exchange.GetBlock.ret")
	x.logReq([]cid.Cid{c})
	if x.callErr || len(x.script) == 0 {
		return nil, errX
	}
	for _, a := range x.script { // an exchange that has the block answers with it
		if a.blk.Cid().Equals(c) {
			return a.blk, nil
		}
	}
	return x.script[0].blk, nil
}

func (x *xfake) GetBlocks(ctx context.Context, ks []cid.Cid) (<-chan blocks.Block, error) {
	vsched.Yield("exchange.GetBlocks")
	x.logReq(ks)
	if x.callErr {
		return nil, errX
	}
	ch := vsched.Reg(make(chan blocks.Block))
	script, ending := x.script, x.ending
	vsched.GoNamed("exchange", false, func() {
		for _, a := range script {
			if vsched.Select(false, vsched.SndTo((chan<- blocks.Block)(ch))(a.blk), vsched.R(ctx.Done())) == 1 {
				vsched.Close(ch)
				return
			}
		}
		if ending == "hang" {
			vsched.Select(false, vsched.R(ctx.Done()))
		}
		vsched.Close(ch)
	})
	return ch, nil
}

func (x *xfake) NotifyNewBlocks(ctx context.Context, bs ...blocks.Block) error {
	vsched.Yield("exchange.Notify")
	x.mu.Lock()
	for _, b := range bs {
		x.notified = append(x.notified, b.Cid())
	}
	x.mu.Unlock()
	return nil
}

func (x *xfake) Close() error { return nil }

// xsess is the same exchange offering sessions.
type xsess struct{ *xfake }

type xfetcher struct{ x *xfake }

func (x xsess) NewSession(ctx context.Context) exchange.Fetcher {
	vsched.Yield("exchange.NewSession")
	x.mu.Lock()
	x.sessions++
	x.mu.Unlock()
	return xfetcher{x.xfake}
}

func (f xfetcher) GetBlock(ctx context.Context, c cid.Cid) (blocks.Block, error) {
	return f.x.GetBlock(ctx, c)
}

func (f xfetcher) GetBlocks(ctx context.Context, ks []cid.Cid) (<-chan blocks.Block, error) {
	return f.x.GetBlocks(ctx, ks)
}

var _ exchange.Interface = (*xfake)(nil)
var _ exchange.SessionExchange = xsess{}
