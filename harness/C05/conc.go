//go:build verif

package main

import (
	"context"
	"fmt"
	"strings"

	"github.com/ipfs/boxo/blockservice"
	"github.com/ipfs/boxo/verifshim/eng"
	"github.com/ipfs/boxo/verifshim/vexp"
	"github.com/ipfs/boxo/verifshim/vsched"
	blocks "github.com/ipfs/go-block-format"
	cid "github.com/ipfs/go-cid"
)

// cscript: one or two calls on one block service, the getBlocks goroutine(s),
// the exchange producer thread(s) and optionally a thread cancelling the context.
type cscript struct {
	name    string
	quick   bool
	c       caseT
	second  *caseT // issued concurrently on the same service (and the same Session for entry=session)
	ending  string // close | hang
	cancel  bool
	failPut bool
	delta   int
}

type callRec struct {
	c    caseT
	req  []cid.Cid
	got  []rx
	err  error
	done bool
}

type cexec struct {
	sc    *cscript
	w     *world
	calls []*callRec
}

func (x *cexec) Main() {
	sc := x.sc
	x.w = newWorld(sc.c)
	w := x.w
	w.x.ending = sc.ending
	w.st.failPut = sc.failPut
	w.wrap = true
	w.faulty = sc.cancel || sc.failPut
	ctx, cancel := context.WithCancel(context.Background())
	var shared *blockservice.Session
	if sc.c.Entry == "session" {
		shared = blockservice.NewSession(ctx, w.sessionBS())
	}
	start := func(name string, c caseT) {
		rec := &callRec{c: c}
		for _, n := range c.Req {
			rec.req = append(rec.req, cids[n])
		}
		x.calls = append(x.calls, rec)
		vsched.GoNamed(name, true, func() {
			cctx, g := w.getter(ctx, c.Entry)
			if shared != nil {
				g = shared
			}
			if c.Call == "GetBlock" {
				var b blocks.Block
				b, rec.err = g.GetBlock(cctx, rec.req[0])
				if rec.err == nil {
					rec.got = append(rec.got, w.observe(b))
				}
			} else {
				rec.got = w.drain(g.GetBlocks(cctx, rec.req))
			}
			rec.done = true
		})
	}
	start("caller0", sc.c)
	if sc.second != nil {
		start("caller1", *sc.second)
	}
	if sc.cancel {
		vsched.GoNamed("canceller", true, func() {
			vsched.Yield("cancel")
			cancel()
		})
	}
	_ = cancel
}

func (x *cexec) AtEnd(*vsched.Result) {}

func (x *cexec) Outcome() string {
	var sb strings.Builder
	for _, r := range x.calls {
		sb.WriteString(outcome(r.got, r.err, x.w))
		sb.WriteString(" || ")
	}
	return sb.String()
}

func (x *cexec) Check(res *vsched.Result) *eng.Violation {
	for _, r := range x.calls {
		if !r.done {
			return eng.V("call-never-returned", r.c.Call, r.c.String())
		}
		if v := judge(r.c, x.w, r.req, r.got, r.err); v != nil {
			v.Detail = fmt.Sprintf("scenario %s: %s", x.sc.name, v.Detail)
			return v
		}
	}
	return nil
}

func cs(call, entry string, sessEx bool, req, script string) caseT {
	f := func(s string) []string {
		if s == "" {
			return nil
		}
		return strings.Fields(s)
	}
	return caseT{Entry: entry, SessEx: sessEx, Call: call, Req: f(req), Script: f(script)}
}

func concScripts(thorough bool) []*cscript {
	gb := cs("GetBlock", "session", true, "B", "B C")
	gbC := cs("GetBlock", "session", true, "C", "B C")
	gbS := cs("GetBlocks", "session", false, "B C", "B C")
	gb2 := cs("GetBlock", "direct", false, "B", "B")
	all := []*cscript{
		{name: "honest", quick: true, c: cs("GetBlocks", "direct", false, "A B C", "B C"), ending: "close", delta: 1},
		{name: "honest-session-reordered", quick: true, c: cs("GetBlocks", "session", true, "B A C", "C B"), ending: "close", delta: 1},
		{name: "cancel-while-exchange-hangs", quick: true, c: cs("GetBlocks", "direct", false, "A B C", "B"), ending: "hang", cancel: true},
		{name: "cancel-during-local-phase", quick: true, c: cs("GetBlocks", "ctxsession", true, "A A2 B", "B"), ending: "hang", cancel: true},
		{name: "put-fails", quick: true, c: cs("GetBlocks", "direct", false, "B C", "B C"), ending: "close", failPut: true, delta: 2},
		{name: "shared-session-two-calls", quick: true, c: cs("GetBlocks", "session", true, "B C", "B C"), second: &gb, ending: "close", delta: -1},
		{name: "fresh-session-two-first-getblocks", quick: true, c: cs("GetBlock", "session", true, "B", "B C"), second: &gbC, ending: "close"},
		{name: "fresh-session-plain-exchange", quick: true, c: cs("GetBlock", "session", false, "C", "B C"), second: &gbS, ending: "close"},
		{name: "adversarial-exchange", quick: true, c: cs("GetBlocks", "direct", false, "A B", "D Bbad B"), ending: "close"},
		{name: "duplicates", c: cs("GetBlocks", "direct", false, "B B A", "B B"), ending: "close", delta: 1},
		{name: "getblock-vs-getblocks", c: cs("GetBlocks", "direct", false, "B C", "B C"), second: &gb2, ending: "close", delta: -1},
		{name: "cancel-after-close", c: cs("GetBlocks", "session", false, "A B", "B"), ending: "close", cancel: true},
		{name: "put-fails-cancel", c: cs("GetBlocks", "direct", true, "B C", "B C"), ending: "hang", cancel: true, failPut: true},
		{name: "getblock-cancel", c: cs("GetBlock", "ctxsession", true, "B", "B"), ending: "close", cancel: true, failPut: true, delta: 6},
	}
	if thorough {
		return all
	}
	var q []*cscript
	for _, s := range all {
		if s.quick {
			q = append(q, s)
		}
	}
	return q
}

func concScenarios(thorough bool) []*vexp.Scenario {
	var out []*vexp.Scenario
	for _, s := range concScripts(thorough) {
		s := s
		delta := s.delta
		if !thorough && delta > 0 {
			delta = 0 // the raised bounds of the small scenarios are for the thorough tier
		}
		out = append(out, &vexp.Scenario{
			Name: s.name, BoundDelta: delta,
			Cfg: vsched.Config{MaxSteps: 20000, MaxIdleFires: 4, SelectCost: 1},
			New: func() vexp.Exec { return &cexec{sc: s} },
		})
	}
	return out
}
