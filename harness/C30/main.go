//go:build verif

package main

import (
	"bytes"
	"context"
	"encoding/json"
	"fmt"
	"net/http"
	"net/http/httptest"
	"sort"
	"strconv"
	"strings"

	"github.com/ipfs/boxo/blockservice"
	"github.com/ipfs/boxo/blockstore"
	chunker "github.com/ipfs/boxo/chunker"
	"github.com/ipfs/boxo/exchange/offline"
	"github.com/ipfs/boxo/gateway"
	"github.com/ipfs/boxo/ipld/merkledag"
	"github.com/ipfs/boxo/ipld/unixfs/importer/balanced"
	ihelper "github.com/ipfs/boxo/ipld/unixfs/importer/helpers"
	"github.com/ipfs/boxo/ipld/unixfs/importer/trickle"
	ft "github.com/ipfs/boxo/ipld/unixfs"
	uio "github.com/ipfs/boxo/ipld/unixfs/io"
	"github.com/ipfs/boxo/verifshim/eng"
	ds "github.com/ipfs/go-datastore"
	dssync "github.com/ipfs/go-datastore/sync"
	format "github.com/ipfs/go-ipld-format"
	"github.com/prometheus/client_golang/prometheus"
)

func must(err error) {
	if err != nil {
		panic(err)
	}
}

// ---------------------------------------------------------------------------
// files

type fileSpec struct {
	Size     int    `json:"size"`
	Chunk    int    `json:"chunk"`
	MaxLinks int    `json:"maxlinks"`
	Raw      bool   `json:"raw"`
	Trickle  bool   `json:"trickle"`
	Via      string `json:"via"` // "" = /ipfs/<cid>; otherwise /ipfs/<dir>/<Via>
	Symlink  bool   `json:"symlink,omitempty"` // a UnixFS symlink whose target text has Size bytes (served through the same serveFile path)
}

func (f fileSpec) String() string {
	l := "balanced"
	if f.Trickle {
		l = "trickle"
	}
	if f.Symlink {
		return fmt.Sprintf("symlink size=%d via=%q", f.Size, f.Via)
	}
	return fmt.Sprintf("size=%d chunk=%d maxlinks=%d raw=%v %s via=%q", f.Size, f.Chunk, f.MaxLinks, f.Raw, l, f.Via)
}

// linkTarget: a relative path of n bytes in which no two windows of 2 bytes are equal (n <= 70).
func linkTarget(n int) []byte {
	const alpha = "abcdefghijklmnopqrstuvwxyz0123456789"
	b := []byte("../")
	for i := 0; len(b) < n; i++ {
		b = append(b, alpha[(i*7+i/36)%36])
	}
	return b[:n]
}

// content byte i: a pattern in which every window of 2 bytes identifies its
// offset modulo 251*256, so a shifted slice never equals the right one.
func content(n int) []byte {
	b := make([]byte, n)
	for i := range b {
		b[i] = byte((i*7 + (i/251)*3 + 33) % 251)
	}
	return b
}

type world struct {
	h     http.Handler
	dserv format.DAGService
}

func newWorld() *world {
	bs := blockstore.NewBlockstore(dssync.MutexWrap(ds.NewMapDatastore()))
	bsv := blockservice.New(bs, offline.Exchange(bs))
	backend, err := gateway.NewBlocksBackend(bsv)
	must(err)
	h := gateway.NewHandler(gateway.Config{DeserializedResponses: true, MetricsRegistry: prometheus.NewRegistry()}, backend)
	return &world{h: h, dserv: merkledag.NewDAGService(bsv)}
}

// add builds the file with the real importer and returns the request path.
func (w *world) add(f fileSpec) (string, []byte) {
	if f.Symlink {
		data := linkTarget(f.Size)
		pb, err := ft.SymlinkData(string(data))
		must(err)
		nd := merkledag.NodeWithData(pb)
		must(w.dserv.Add(context.Background(), nd))
		return w.place(f, nd), data
	}
	data := content(f.Size)
	p := ihelper.DagBuilderParams{Dagserv: w.dserv, Maxlinks: f.MaxLinks, RawLeaves: f.Raw}
	if f.Raw {
		p.CidBuilder = merkledag.V1CidPrefix()
	} else {
		p.CidBuilder = merkledag.V0CidPrefix()
	}
	db, err := p.New(chunker.NewSizeSplitter(bytes.NewReader(data), int64(f.Chunk)))
	must(err)
	var nd format.Node
	if f.Trickle {
		nd, err = trickle.Layout(db)
	} else {
		nd, err = balanced.Layout(db)
	}
	must(err)
	return w.place(f, nd), data
}

// place returns the request path of nd: its own CID, or an entry of a fresh directory.
func (w *world) place(f fileSpec, nd format.Node) string {
	if f.Via == "" {
		return "/ipfs/" + nd.Cid().String()
	}
	d, err := uio.NewBasicDirectory(w.dserv)
	must(err)
	must(d.AddChild(context.Background(), f.Via, nd))
	dn, err := d.GetNode()
	must(err)
	must(w.dserv.Add(context.Background(), dn))
	return "/ipfs/" + dn.Cid().String() + "/" + f.Via
}

// ---------------------------------------------------------------------------
// range grammar (RFC 9110 14.1.1: ranges-specifier = "bytes=" 1#range-spec;
// range-spec = int-range (first "-" [last], last >= first) | suffix-range ("-" suffix-length))

type rspec struct {
	Kind int   `json:"k"` // 0: a-b, 1: a-, 2: -s
	A    int64 `json:"a"`
	B    int64 `json:"b,omitempty"`
}

func (s rspec) String() string {
	switch s.Kind {
	case 0:
		return fmt.Sprintf("%d-%d", s.A, s.B)
	case 1:
		return fmt.Sprintf("%d-", s.A)
	}
	return fmt.Sprintf("-%d", s.A)
}

// sat: reference semantics. Returns the clamped inclusive byte interval the
// spec selects in a representation of `size` bytes, ok=false if unsatisfiable.
func (s rspec) sat(size int64) (x, y int64, ok bool) {
	switch s.Kind {
	case 0:
		if s.A >= size {
			return 0, 0, false
		}
		y = s.B
		if y > size-1 {
			y = size - 1
		}
		return s.A, y, true
	case 1:
		if s.A >= size {
			return 0, 0, false
		}
		return s.A, size - 1, true
	default:
		if s.A == 0 || size == 0 {
			return 0, 0, false
		}
		x = size - s.A
		if x < 0 {
			x = 0
		}
		return x, size - 1, true
	}
}

var seps = []string{",", ", ", " ,", ",,", " , "}

type request struct {
	File    fileSpec `json:"file"`
	Method  string   `json:"method"`
	Specs   []rspec  `json:"specs"`             // empty: no Range header
	Sep     int      `json:"sep"`               // index into seps
	IfRange string   `json:"if_range"`          // "", "match", "stale"
	INM     string   `json:"if_none_match"`     // "", "match", "other"
}

func (q request) rangeHeader() string {
	if len(q.Specs) == 0 {
		return ""
	}
	parts := make([]string, len(q.Specs))
	for i, s := range q.Specs {
		parts[i] = s.String()
	}
	return "bytes=" + strings.Join(parts, seps[q.Sep])
}

// offsets of interest for a file
func offsets(f fileSpec, rich bool) []int64 {
	s := int64(f.Size)
	set := map[int64]bool{}
	add := func(v int64) {
		if v >= 0 {
			set[v] = true
		}
	}
	for _, v := range []int64{0, 1, s - 1, s, s + 1} {
		add(v)
	}
	if rich {
		c := int64(f.Chunk)
		if c < s {
			for _, v := range []int64{c - 1, c, c + 1, s - c} {
				add(v)
			}
		}
		if s > 3072 { // mimetype sniffing window
			for _, v := range []int64{3071, 3072, 3073} {
				add(v)
			}
		}
		add(s / 2)
	}
	out := []int64{}
	for v := range set {
		out = append(out, v)
	}
	sort.Slice(out, func(i, j int) bool { return out[i] < out[j] })
	return out
}

func allSpecs(f fileSpec, rich bool) []rspec {
	offs := offsets(f, rich)
	var out []rspec
	for _, a := range offs {
		for _, b := range offs {
			if a <= b {
				out = append(out, rspec{Kind: 0, A: a, B: b})
			}
		}
	}
	for _, a := range offs {
		out = append(out, rspec{Kind: 1, A: a})
	}
	s := int64(f.Size)
	suf := map[int64]bool{0: true, 1: true, s: true, s + 1: true}
	if rich {
		suf[s/2] = true
		suf[int64(f.Chunk)] = true
	}
	var ks []int64
	for k := range suf {
		ks = append(ks, k)
	}
	sort.Slice(ks, func(i, j int) bool { return ks[i] < ks[j] })
	for _, k := range ks {
		out = append(out, rspec{Kind: 2, A: k})
	}
	return out
}

// ---------------------------------------------------------------------------
// execution + oracle

type fileCtx struct {
	spec fileSpec
	path string
	data []byte
	etag string
}

type response struct {
	code int
	hdr  http.Header
	body []byte
}

func (w *world) do(fc *fileCtx, q request) response {
	req := httptest.NewRequest(q.Method, "http://gw.example"+fc.path, nil)
	if rh := q.rangeHeader(); rh != "" {
		req.Header.Set("Range", rh)
	}
	switch q.IfRange {
	case "match":
		req.Header.Set("If-Range", fc.etag)
	case "stale":
		req.Header.Set("If-Range", `"bafkqaaa-stale"`)
	}
	switch q.INM {
	case "match":
		req.Header.Set("If-None-Match", fc.etag)
	case "other":
		req.Header.Set("If-None-Match", `"some-other-etag"`)
	}
	rec := httptest.NewRecorder()
	w.h.ServeHTTP(rec, req)
	return response{code: rec.Code, hdr: rec.Header(), body: rec.Body.Bytes()}
}

func parseContentRange(s string) (x, y, size int64, ok bool) {
	// bytes x-y/size
	if !strings.HasPrefix(s, "bytes ") {
		return
	}
	s = s[6:]
	r, sz, f := strings.Cut(s, "/")
	if !f {
		return
	}
	xs, ys, f := strings.Cut(r, "-")
	if !f {
		return
	}
	var e1, e2, e3 error
	x, e1 = strconv.ParseInt(xs, 10, 64)
	y, e2 = strconv.ParseInt(ys, 10, 64)
	size, e3 = strconv.ParseInt(sz, 10, 64)
	ok = e1 == nil && e2 == nil && e3 == nil
	return
}

func short(b []byte) string {
	if len(b) > 24 {
		return fmt.Sprintf("%x…(%d bytes)", b[:24], len(b))
	}
	return fmt.Sprintf("%x", b)
}

// judge applies the reference semantics. It returns a violation or nil, and an outcome class.
func judge(fc *fileCtx, q request, rs response) (*eng.Violation, string) {
	size := int64(len(fc.data))
	rangeEffective := len(q.Specs) > 0 && q.IfRange != "stale"
	type iv struct{ x, y int64 }
	var sats []iv
	firstSat, firstStartNonZero := false, false
	var sum int64
	for i, s := range q.Specs {
		x, y, ok := s.sat(size)
		if ok {
			sats = append(sats, iv{x, y})
			sum += y - x + 1
		}
		if i == 0 {
			firstSat = ok
			firstStartNonZero = s.Kind == 2 || s.A != 0
		}
	}
	// features describe the defect class, not the request
	zeroLen := false // a suffix spec that selects zero bytes was requested ("-0", or any suffix of an empty file)
	for _, s := range q.Specs {
		if s.Kind == 2 && (s.A == 0 || size == 0) {
			zeroLen = true
		}
	}
	firstKind := "none"
	firstPos := int64(0) // offset named by the first spec of the header
	if len(q.Specs) > 0 {
		f0 := q.Specs[0]
		firstKind = []string{"int", "open", "suffix"}[f0.Kind]
		firstPos = f0.A
		if f0.Kind == 2 {
			firstPos = size - f0.A
			if f0.A > size {
				firstKind = "suffix>size"
				firstPos = 0
			}
			if f0.A == 0 {
				firstKind = "suffix0"
				firstPos = 0 // "-0" reaches the backend as From=0: the reader stays at the start
			}
		}
	}
	_ = firstStartNonZero
	ifr := "ok"
	if q.IfRange == "stale" {
		ifr = "stale"
	}
	feat := []string{
		"status", strconv.Itoa(rs.code), "first_spec_kind", firstKind,
		"first_spec_satisfiable", fmt.Sprint(firstSat), "if_range", ifr,
		"ranges_sum_exceeds_size", fmt.Sprint(sum > size), "zero_length_suffix_requested", fmt.Sprint(zeroLen),
	}
	mk := func(symptom, detail string) *eng.Violation {
		v := eng.V(symptom, q.Method, fmt.Sprintf("%s %s [%s] Range=%q If-Range=%s If-None-Match=%s -> %d Content-Range=%q Content-Length=%q body=%s: %s",
			q.Method, fc.path, fc.spec, q.rangeHeader(), orNone(q.IfRange), orNone(q.INM), rs.code, rs.hdr.Get("Content-Range"), rs.hdr.Get("Content-Length"), short(rs.body), detail), feat...)
		v.Replay = q
		return v
	}
	head := q.Method == http.MethodHead
	cl := rs.hdr.Get("Content-Length")
	checkBody := func(want []byte) *eng.Violation {
		if cl != "" && cl != strconv.Itoa(len(want)) {
			return mk("wrong-content-length", fmt.Sprintf("Content-Length %s, want %d", cl, len(want)))
		}
		if head {
			if len(rs.body) != 0 {
				return mk("head-with-body", "HEAD response carries a body")
			}
			if cl == "" {
				return mk("wrong-content-length", "HEAD response without Content-Length")
			}
			return nil
		}
		if !bytes.Equal(rs.body, want) {
			sym := "wrong-body"
			// what a reader positioned at the first spec's offset would deliver for this Content-Length
			end := firstPos + int64(len(want))
			if end > size {
				end = size
			}
			if len(q.Specs) > 0 && firstPos >= 0 && bytes.Equal(rs.body, fc.data[min(firstPos, size):max(end, min(firstPos, size))]) {
				sym = "body-read-from-first-spec-offset"
			} else if len(rs.body) < len(want) && bytes.Equal(rs.body, want[:len(rs.body)]) {
				sym = "truncated-body"
			} else if len(rs.body) < len(want) {
				sym = "wrong-and-short-body"
			}
			return mk(sym, fmt.Sprintf("body has %d bytes, want %d bytes %s", len(rs.body), len(want), short(want)))
		}
		return nil
	}

	// If-None-Match with the current ETag: 304, no body (evaluated before Range, RFC 9110 13.2.2)
	if q.INM == "match" {
		if rs.code != http.StatusNotModified {
			return mk("if-none-match-ignored", "want 304"), "inm"
		}
		if len(rs.body) != 0 {
			return mk("304-with-body", "304 carries a body"), "inm"
		}
		return nil, "304"
	}

	switch rs.code {
	case http.StatusOK:
		if cr := rs.hdr.Get("Content-Range"); cr != "" {
			return mk("200-with-content-range", "200 response carries Content-Range"), "200"
		}
		if v := checkBody(fc.data); v != nil {
			return v, "200"
		}
		if rangeEffective {
			return nil, "200-range-ignored"
		}
		return nil, "200"
	case http.StatusPartialContent:
		if !rangeEffective {
			if len(q.Specs) > 0 {
				return mk("if-range-stale-but-206", "If-Range validator does not match: the Range header must be ignored"), "206"
			}
			return mk("206-without-range", "206 although no Range was requested"), "206"
		}
		x, y, sz, ok := parseContentRange(rs.hdr.Get("Content-Range"))
		if !ok {
			return mk("bad-content-range", "206 without a parsable Content-Range"), "206"
		}
		if sz != size {
			return mk("bad-content-range", fmt.Sprintf("complete-length %d, want %d", sz, size)), "206"
		}
		if y < x {
			return mk("206-zero-length-range", fmt.Sprintf("Content-Range %q selects no bytes (last-pos < first-pos)", rs.hdr.Get("Content-Range"))), "206-zero-length"
		}
		found := false
		for _, s := range sats {
			if s.x == x && s.y == y {
				found = true
			}
		}
		if !found {
			return mk("content-range-not-requested", fmt.Sprintf("Content-Range %d-%d is not the clamped form of any requested satisfiable range %v", x, y, sats)), "206"
		}
		if v := checkBody(fc.data[x : y+1]); v != nil {
			return v, "206"
		}
		if len(sats) > 0 && x == sats[0].x && y == sats[0].y {
			return nil, "206-first-satisfiable"
		}
		return nil, "206-later"
	case http.StatusRequestedRangeNotSatisfiable:
		if !rangeEffective {
			return mk("416-without-effective-range", "416 although no Range applies"), "416"
		}
		if len(sats) > 0 {
			return mk("416-for-satisfiable-range", fmt.Sprintf("416 although %v overlap the file", sats)), "416"
		}
		if cr := rs.hdr.Get("Content-Range"); cr != "" && cr != fmt.Sprintf("bytes */%d", size) {
			return mk("bad-content-range", fmt.Sprintf("416 Content-Range %q, want bytes */%d", cr, size)), "416"
		}
		return nil, "416"
	default:
		return mk("unexpected-status", fmt.Sprintf("status %d for a syntactically valid request", rs.code)), "other"
	}
}

func orNone(s string) string {
	if s == "" {
		return "none"
	}
	return s
}

func rootKind(f fileSpec) string {
	multi := f.Size > f.Chunk
	switch {
	case f.Symlink:
		return "symlink"
	case !multi && f.Raw:
		return "raw-block"
	case !multi:
		return "dagpb-single"
	default:
		return "dagpb-multi"
	}
}

// ---------------------------------------------------------------------------
// enumeration

func fileSpecs(thorough bool) []fileSpec {
	fs := []fileSpec{
		{Size: 0, Chunk: 4, MaxLinks: 2},
		{Size: 0, Chunk: 4, MaxLinks: 2, Raw: true},
		{Size: 1, Chunk: 4, MaxLinks: 2},
		{Size: 1, Chunk: 4, MaxLinks: 2, Raw: true},
		{Size: 10, Chunk: 16, MaxLinks: 2},                          // single dag-pb leaf
		{Size: 10, Chunk: 16, MaxLinks: 2, Raw: true},               // single raw block
		{Size: 10, Chunk: 3, MaxLinks: 2},                           // 4 leaves, 3 levels
		{Size: 10, Chunk: 3, MaxLinks: 2, Raw: true},                // raw leaves
		{Size: 10, Chunk: 3, MaxLinks: 2, Trickle: true},            // trickle
		{Size: 10, Chunk: 3, MaxLinks: 2, Raw: true, Via: "f.txt"},  // content type from the extension (no sniffing)
		{Size: 10, Chunk: 3, MaxLinks: 2, Via: "noext"},             // through a directory, sniffed
		{Size: 10, Chunk: 16, MaxLinks: 2, Raw: true, Via: "f.txt"}, // raw block below a directory
		{Size: 10, Chunk: 16, Symlink: true},                        // UnixFS symlink addressed by CID
		{Size: 10, Chunk: 16, Symlink: true, Via: "lnk"},            // symlink below a directory
		{Size: 1, Chunk: 16, Symlink: true},
	}
	if thorough {
		fs = append(fs,
			fileSpec{Size: 4000, Chunk: 1024, MaxLinks: 2},              // larger than the sniffing window
			fileSpec{Size: 4000, Chunk: 1024, MaxLinks: 2, Raw: true, Trickle: true},
			fileSpec{Size: 4000, Chunk: 4096, MaxLinks: 2, Raw: true},   // one raw block > sniff window
			fileSpec{Size: 37, Chunk: 5, MaxLinks: 3, Raw: true},
			fileSpec{Size: 37, Chunk: 5, MaxLinks: 3, Trickle: true, Via: "f.bin"},
			fileSpec{Size: 34, Chunk: 64, Symlink: true},
			fileSpec{Size: 34, Chunk: 64, Symlink: true, Via: "lnk.txt"},
		)
	} else {
		fs = append(fs, fileSpec{Size: 4000, Chunk: 1024, MaxLinks: 2, Raw: true})
	}
	return fs
}

type task struct {
	fc    *fileCtx
	specs []rspec
}

func body(r *eng.Run) {
	r.Rule("for every file (sizes 0/1/10/37/4000; single raw block, single dag-pb leaf, balanced and trickle multi-level DAGs with raw or dag-pb leaves; addressed by CID or below a directory with/without extension) every Range header made of 0, 1 or 2 range-specs (thorough: selected triples) from {a-b (a<=b), a-, -s} with a,b in {0,1,size-1,size,size+1}(+chunk boundaries, sniff window 3071..3073, size/2 on the rich files) and s in {0,1,size,size+1}, list separators {',', ', ', ' ,', ',,'}, x {GET,HEAD} x If-Range {absent, current ETag, stale ETag} x If-None-Match {absent, current ETag, other}; non-trivial = request carrying a Range header; judged by an independent RFC 9110 byte-range model")
	r.Assume("the importer (balanced/trickle layouts) stores exactly the given bytes (checked by C06/C09); the reference bytes are the generator's")
	r.Assume("httptest.ResponseRecorder reflects what a client would receive apart from transfer framing")
	w := newWorld()
	th := r.Thorough()
	var tasks []task
	nreq := 0
	for _, f := range fileSpecs(th) {
		p, data := w.add(f)
		fc := &fileCtx{spec: f, path: p, data: data}
		// learn the ETag and check the plain GET first
		rs := w.do(fc, request{File: f, Method: "GET"})
		fc.etag = rs.hdr.Get("Etag")
		if fc.etag == "" {
			r.Report(eng.V("no-etag", "GET", fmt.Sprintf("plain GET %s has no Etag (status %d)", p, rs.code)))
			continue
		}
		rich := f.Size > 16 && (th || f.Size < 100)
		specs := allSpecs(f, rich)
		r.Set("specs:"+f.String(), len(specs))
		tasks = append(tasks, task{fc: fc, specs: nil})
		for i := range specs {
			tasks = append(tasks, task{fc: fc, specs: []rspec{specs[i]}})
		}
		if len(specs) <= 40 || th {
			for i := range specs {
				tasks = append(tasks, task{fc: fc, specs: []rspec{specs[i], {Kind: -1}}}) // marker: all pairs with first = specs[i]
			}
		} else {
			// quick tier on the rich file: pairs over the basic offsets only
			basic := allSpecs(f, false)
			for i := range basic {
				tasks = append(tasks, task{fc: fc, specs: []rspec{basic[i], {Kind: -2}}})
			}
		}
	}
	r.Set("files", len(fileSpecs(th)))
	eng.ParFor(len(tasks), func(i int) {
		if r.Expired() {
			return
		}
		t := tasks[i]
		f := t.fc.spec
		var lists [][]rspec
		switch {
		case len(t.specs) == 2 && t.specs[1].Kind < 0:
			second := allSpecs(f, t.specs[1].Kind == -1 && f.Size > 16 && (th || f.Size < 100))
			for _, s2 := range second {
				lists = append(lists, []rspec{t.specs[0], s2})
			}
			if th && f.Size <= 10 {
				// triples: unsatisfiable / satisfiable mixes with a third spec from the basic set
				for _, s2 := range second {
					for _, s3 := range []rspec{{Kind: 0, A: 0, B: 0}, {Kind: 1, A: int64(f.Size)}, {Kind: 2, A: 1}} {
						lists = append(lists, []rspec{t.specs[0], s2, s3})
					}
				}
			}
		default:
			lists = [][]rspec{t.specs}
		}
		n := 0
		for _, l := range lists {
			nsep := 1
			if len(l) > 1 {
				nsep = eng.Pick(r, 2, 4)
				if len(l) == 2 && f.Size == 10 && f.Chunk == 3 && !f.Raw && !f.Trickle && f.Via == "" {
					nsep = len(seps)
				}
			}
			for sep := 0; sep < nsep; sep++ {
				for _, m := range []string{"GET", "HEAD"} {
					for _, ir := range []string{"", "match", "stale"} {
						for _, inm := range []string{"", "match", "other"} {
							if len(l) == 0 && ir != "" {
								continue
							}
							if inm == "other" && (ir != "" || sep > 0) {
								continue // a non-matching If-None-Match is only crossed with the plain variants
							}
							if inm == "match" && sep > 0 {
								continue // 304 does not depend on the list separator
							}
							q := request{File: f, Method: m, Specs: l, Sep: sep, IfRange: ir, INM: inm}
							runOne(r, w, t.fc, q)
							n++
						}
					}
				}
			}
		}
		r.Eval(n)
	})
	_ = nreq
	if r.Expired() {
		r.Incomplete("budget expired during enumeration")
	}
}

func runOne(r *eng.Run, w *world, fc *fileCtx, q request) {
	var rs response
	if g := eng.Guard(q.Method, func() { rs = w.do(fc, q) }); g != nil {
		g.Replay = q
		r.Report(g)
		return
	}
	v, out := judge(fc, q, rs)
	if v != nil {
		r.Report(v)
	}
	r.Outcome(out)
	r.Add("outcome:"+out, 1)
	if len(q.Specs) > 0 {
		r.Distinct(fc.spec.String() + "|" + q.Method + "|" + q.rangeHeader() + "|" + q.IfRange + "|" + q.INM)
		if len(q.Specs) == 2 && q.Sep == 1 {
			r.Sample(map[string]any{"file": fc.spec.String(), "method": q.Method, "range": q.rangeHeader(), "if_range": q.IfRange, "if_none_match": q.INM, "status": rs.code, "content_range": rs.hdr.Get("Content-Range")})
		}
	}
}

func replay(r *eng.Run, raw json.RawMessage) {
	var q request
	must(json.Unmarshal(raw, &q))
	w := newWorld()
	p, data := w.add(q.File)
	fc := &fileCtx{spec: q.File, path: p, data: data}
	fc.etag = w.do(fc, request{File: q.File, Method: "GET"}).hdr.Get("Etag")
	rs := w.do(fc, q)
	fmt.Printf("replay: %s %s Range=%q If-Range=%s If-None-Match=%s\n  -> %d Content-Range=%q Content-Length=%q Content-Type=%q body=%s\n", q.Method, p, q.rangeHeader(), orNone(q.IfRange), orNone(q.INM), rs.code, rs.hdr.Get("Content-Range"), rs.hdr.Get("Content-Length"), rs.hdr.Get("Content-Type"), short(rs.body))
	if rs.code >= 400 {
		fmt.Printf("  error body: %q\n", rs.body)
	}
	v, _ := judge(fc, q, rs)
	if v != nil {
		r.Report(v)
	}
	r.Eval(1)
}

func main() {
	eng.Main("C30", "exploration", body, replay)
}
