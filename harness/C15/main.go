//go:build verif

// C15: UnixFS directories (basic, HAMT, dynamic) behave as name->entry maps.
package main

import (
	"encoding/json"
	"fmt"
	"strings"

	"github.com/ipfs/boxo/verifshim/eng"
)

func configs(r *eng.Run) []string {
	var out []string
	add := func(c cfg) { out = append(out, c.String()) }
	// pure HAMT under every width class
	for _, w := range []int{8, 16, 256, 1024} {
		add(cfg{layout: "hamt", width: w, thr: "def", est: "links"})
	}
	// pure basic (MaxLinks is a documented hard limit there)
	add(cfg{layout: "basic", width: 256, maxLinks: 0, thr: "def", est: "links"})
	add(cfg{layout: "basic", width: 256, maxLinks: 2, thr: "tiny", est: "block"})
	add(cfg{layout: "basic", width: 256, maxLinks: 3, thr: "def", est: "off"})
	if r.Thorough() {
		for _, w := range []int{8, 16, 256, 1024} {
			for _, ml := range []int{0, 2, 3} {
				for _, thr := range []string{"def", "tiny"} {
					for _, est := range []string{"links", "block", "off"} {
						add(cfg{layout: "dyn", width: w, maxLinks: ml, thr: thr, est: est})
					}
				}
			}
		}
		add(cfg{layout: "dyn", width: 8, maxLinks: 2, thr: "tiny", est: "block", stat: 1, v1: true})
		return out
	}
	// quick: width 8 (deepest collisions) with every distinguishable (maxLinks, threshold, mode) combination ...
	for _, est := range []string{"links", "block"} {
		for _, mt := range []struct {
			ml  int
			thr string
		}{{0, "tiny"}, {2, "def"}, {2, "tiny"}, {3, "def"}, {3, "tiny"}} {
			if est == "block" && mt.thr == "def" {
				continue // with the 256 KiB default threshold the size mode cannot matter for these tiny sets
			}
			add(cfg{layout: "dyn", width: 8, maxLinks: mt.ml, thr: mt.thr, est: est})
		}
	}
	add(cfg{layout: "dyn", width: 8, maxLinks: 0, thr: "def", est: "links"})
	for _, ml := range []int{2, 3} {
		add(cfg{layout: "dyn", width: 8, maxLinks: ml, thr: "def", est: "off"})
	}
	// ... and the other widths with one converting combination each
	for _, w := range []int{16, 256, 1024} {
		add(cfg{layout: "dyn", width: w, maxLinks: 2, thr: "tiny", est: "links"})
	}
	return out
}

// deepConfigs: the configurations explored one level deeper in the thorough tier.
func deepConfigs() []string {
	var out []string
	add := func(c cfg) { out = append(out, c.String()+"/deep") }
	add(cfg{layout: "hamt", width: 8, thr: "def", est: "links"})
	add(cfg{layout: "dyn", width: 8, maxLinks: 2, thr: "def", est: "off"})
	add(cfg{layout: "dyn", width: 8, maxLinks: 2, thr: "tiny", est: "links"})
	add(cfg{layout: "dyn", width: 8, maxLinks: 3, thr: "tiny", est: "block"})
	add(cfg{layout: "dyn", width: 8, maxLinks: 0, thr: "tiny", est: "links"})
	add(cfg{layout: "hamt", width: 16, thr: "def", est: "links"})
	add(cfg{layout: "dyn", width: 8, maxLinks: 3, thr: "def", est: "off"})
	add(cfg{layout: "dyn", width: 16, maxLinks: 2, thr: "tiny", est: "links"})
	add(cfg{layout: "dyn", width: 1024, maxLinks: 2, thr: "tiny", est: "block"})
	return out
}

func spec(r *eng.Run, deep bool) eng.SeqSpec {
	if pool == nil {
		initPool(r)
	}
	sp := eng.SeqSpec{
		Configs:    configs(r),
		New:        func(c string) eng.Sys { return newSys(r, c) },
		Depth:      5,
		NonTrivial: func(cfg string, p []string) bool { return len(p) >= 2 },
	}
	if deep {
		sp.Configs = deepConfigs()
		sp.Depth = 6
	}
	return sp
}

func main() {
	prop = "C15"
	eng.Main("C15", "model_checking", func(r *eng.Run) {
		r.Rule("BFS over AddChild(add or replace, 2 targets) / RemoveChild (also of missing names) / reload-from-root-node / Find (when the HAMT is partly unloaded) sequences; each successor = replay on a fresh real directory + 1 op; state = map model + private directory fields + in-memory HAMT tree with loaded/unloaded children + root CID; after every transition into a not yet checked state Links, EnumLinksAsync, ForEachLink, Find(every pool name) on the directory and on a copy reloaded from the serialized root are compared with the map model; a case is non-trivial when the path has >= 2 operations")
		r.Assume("merkledag test DAGService (in-memory blockservice) is correct; murmur3 collisions are found by deterministic search over names c0,c1,... with the hamt package's own hash function")
		r.Assume("globals uio.HAMTShardingSize / HAMTSizeEstimation / DefaultShardWidth stay at their defaults; everything is configured per directory (so the 'threshold disabled' setting, which exists only as a global, is not covered)")
		sp := spec(r, false)
		r.Set("config_list", sp.Configs)
		eng.ExploreSeq(r, sp)
		if r.Thorough() && !r.Expired() {
			r.Set("phase1", fmt.Sprintf("all %d configurations to depth %d", len(sp.Configs), sp.Depth))
			dp := spec(r, true)
			r.Set("phase2_config_list", dp.Configs)
			eng.ExploreSeq(r, dp)
		}
	}, func(r *eng.Run, raw json.RawMessage) {
		var rp struct {
			Config string `json:"config"`
		}
		json.Unmarshal(raw, &rp)
		eng.ReplaySeq(r, spec(r, strings.HasSuffix(rp.Config, "/deep")), raw)
	})
}
