//go:build verif

// Shared driver of the C15 / C16 harnesses (identical file in both harness
// directories).  It drives the real unixfs/io directories (basic, HAMT,
// dynamic) through add / replace / remove / reload / find sequences with the
// opseq explorer, against a map model.
//
//	C15 oracle: listing / lookup / enumeration == map model, reload == model.
//	C16 oracle: root CID == CID of a canonical fresh build of the same entry
//	            set; "is sharded" == documented rule on the final set.
package main

import (
	"context"
	"errors"
	"fmt"
	"math/bits"
	"os"
	"sort"
	"strings"
	"sync"
	"time"

	"github.com/ipfs/boxo/ipld/merkledag"
	mdtest "github.com/ipfs/boxo/ipld/merkledag/test"
	unixfs "github.com/ipfs/boxo/ipld/unixfs"
	"github.com/ipfs/boxo/ipld/unixfs/internal"
	uio "github.com/ipfs/boxo/ipld/unixfs/io"
	"github.com/ipfs/boxo/verifshim/eng"
	blocks "github.com/ipfs/go-block-format"
	cid "github.com/ipfs/go-cid"
	ipld "github.com/ipfs/go-ipld-format"
	mh "github.com/multiformats/go-multihash"
)

var ctx = context.Background()

// prop is "C15" or "C16" (set by main.go).
var prop string

// ---------------------------------------------------------------- names & targets

type nameDef struct {
	tag   string // short printable id used in operation strings
	name  string
	class string // plain | empty | space | long | colliding
	alt   bool   // also offered with the second target
	find  bool   // offered as explicit Find operation on partly loaded HAMTs
}

var (
	pool    []nameDef
	byTag   = map[string]*nameDef{}
	targets []ipld.Node
	tsize   []uint64
	// stat classes: mode/mtime given to WithStat. Their UnixFS Data fields fall
	// into different size classes (mode field absent/present; mtime seconds 0 /
	// positive / negative = 1 / 5 / 10 varint bytes; with and without nanos).
	statClasses = []struct {
		mode  os.FileMode
		mtime time.Time
	}{
		{}, // 0: no stat
		{os.ModeDir | 0o755, time.Unix(1700000000, 5)}, // 1 ("/stat")
		{0, time.Unix(0, 0)},                           // 2: second 0 of the epoch, no nanos, no mode
		{0o644, time.Unix(0, 999999999)},               // 3: second 0 with nanos, mode
		{os.ModeDir | 0o700, time.Unix(-1, 0)},         // 4: negative seconds
		{0, time.Unix(1, 1)},                           // 5: one-byte positive seconds with nanos
	}
)

func hashOf(s string) []byte { return internal.HAMTHashFunction([]byte(s)) }

// sharedBits = length of the common bit prefix of the HAMT hashes of a and b.
func sharedBits(a, b string) int {
	ha, hb := hashOf(a), hashOf(b)
	n := 0
	for i := range ha {
		x := ha[i] ^ hb[i]
		if x == 0 {
			n += 8
			continue
		}
		return n + bits.LeadingZeros8(x)
	}
	return n
}

// findName returns the first candidate "c<i>" whose hash shares between lo and
// hi (exclusive) leading bits with base: a deterministic search, no randomness.
func findName(base string, lo, hi int, avoid map[string]bool) string {
	for i := 0; i < 50_000_000; i++ {
		c := fmt.Sprintf("c%d", i)
		if avoid[c] {
			continue
		}
		if sb := sharedBits(base, c); sb >= lo && sb < hi {
			return c
		}
	}
	panic("harness: no colliding name found")
}

func initPool(r *eng.Run) {
	if internal.HAMTHashFunction == nil {
		panic("harness: HAMT hash function not registered")
	}
	// width 8 => 3 bits per level
	cA := findName("a", 18, 64, nil)                      // shares >= 6 levels with "a" at width 8 (4 at 16, 2 at 256, 1 at 1024)
	cB := findName("a", 9, 12, map[string]bool{cA: true}) // exactly 3 levels
	cC := findName("a", 6, 9, map[string]bool{cA: true})  // exactly 2 levels
	plain := "b"
	for _, c := range []string{"b", "d", "e", "f", "g", "h"} { // a name in a different root bucket than "a" for widths 8..1024
		if sharedBits("a", c) < 3 {
			plain = c
			break
		}
	}
	t0 := unixfs.EmptyFileNode()              // CIDv0, Tsize 6
	t1 := merkledag.NewRawNode([]byte("xyz")) // CIDv1 raw, 2 bytes longer CID, Tsize 3
	targets = []ipld.Node{t0, t1}
	for _, t := range targets {
		s, _ := t.Size()
		tsize = append(tsize, s)
	}
	if prop == "C16" {
		pool = []nameDef{
			{"a", "a", "plain", true, false},
			{"b", plain, "plain", false, false},
			{"cA", cA, "colliding", true, true},
			{"cB", cB, "colliding", false, false},
			{"L", strings.Repeat("L", 40), "long", true, false},
		}
	} else {
		pool = []nameDef{
			{"a", "a", "plain", true, true},
			{"b", plain, "plain", false, false},
			{"E", "", "empty", false, false},
			{"L", strings.Repeat("L", 300), "long", true, false},
			{"cA", cA, "colliding", true, true},
			{"cB", cB, "colliding", false, true},
			{"cC", cC, "colliding", false, false},
		}
		if r.Thorough() {
			pool = append(pool, nameDef{"SP", " ", "space", false, false})
		}
	}
	for i := range pool {
		byTag[pool[i].tag] = &pool[i]
	}
	r.Set("names", func() map[string]string {
		m := map[string]string{}
		for _, n := range pool {
			v := n.name
			if len(v) > 12 {
				v = fmt.Sprintf("%s...(%d bytes)", v[:4], len(v))
			}
			m[n.tag] = fmt.Sprintf("%q shares %d hash bits with \"a\"", v, sharedBits("a", n.name))
		}
		return m
	}())
}

func classOf(name string) string {
	for _, n := range pool {
		if n.name == name {
			return n.class
		}
	}
	return "unknown"
}

// ---------------------------------------------------------------- configuration

type cfg struct {
	layout   string // basic | hamt | dyn
	width    int
	maxLinks int
	thr      string // def | tiny
	est      string // links | block | off
	stat     int    // index into statClasses, 0 = none
	v1       bool
}

func (c cfg) String() string {
	s := fmt.Sprintf("%s/w%d/ml%d/thr=%s/est=%s", c.layout, c.width, c.maxLinks, c.thr, c.est)
	if c.stat == 1 {
		s += "/stat"
	} else if c.stat > 1 {
		s += fmt.Sprintf("/stat%d", c.stat)
	}
	if c.v1 {
		s += "/v1"
	}
	return s
}

func parseCfg(s string) cfg {
	var c cfg
	for i, f := range strings.Split(s, "/") {
		switch {
		case i == 0:
			c.layout = f
		case f == "stat":
			c.stat = 1
		case strings.HasPrefix(f, "stat"):
			fmt.Sscan(f[4:], &c.stat)
		case f == "v1":
			c.v1 = true
		case strings.HasPrefix(f, "thr="):
			c.thr = f[4:]
		case strings.HasPrefix(f, "est="):
			c.est = f[4:]
		case strings.HasPrefix(f, "ml"):
			fmt.Sscan(f[2:], &c.maxLinks)
		case strings.HasPrefix(f, "w"):
			fmt.Sscan(f[1:], &c.width)
		}
	}
	return c
}

func (c cfg) estMode() uio.SizeEstimationMode {
	switch c.est {
	case "block":
		return uio.SizeEstimationBlock
	case "off":
		return uio.SizeEstimationDisabled
	}
	return uio.SizeEstimationLinks
}

const defaultThreshold = 256 * 1024 // value of the untouched global uio.HAMTShardingSize

// threshold returns the per-directory threshold to configure (0 = leave unset, global default applies).
func (c cfg) threshold() int {
	if c.thr != "tiny" {
		return 0
	}
	// calibrated so that the three short entries a, b, cA with the first target
	// are exactly AT the threshold (stay basic) and anything more is above it
	m := map[string]int{byTag["a"].name: 0, byTag["b"].name: 0, byTag["cA"].name: 0}
	if c.est == "block" {
		return c.blockSize(m)
	}
	return linksSize(m)
}

func (c cfg) effectiveThreshold() int {
	if t := c.threshold(); t > 0 {
		return t
	}
	return defaultThreshold
}

func (c cfg) cidBuilder() cid.Builder {
	if c.v1 {
		return cid.V1Builder{Codec: cid.DagProtobuf, MhType: mh.SHA2_256}
	}
	return nil
}

func (c cfg) opts() []uio.DirectoryOption {
	o := []uio.DirectoryOption{uio.WithMaxHAMTFanout(c.width), uio.WithMaxLinks(c.maxLinks), uio.WithSizeEstimationMode(c.estMode())}
	if c.stat != 0 {
		o = append(o, uio.WithStat(statClasses[c.stat].mode, statClasses[c.stat].mtime))
	}
	if c.v1 {
		o = append(o, uio.WithCidBuilder(c.cidBuilder()))
	}
	return o
}

func (c cfg) newDir(dserv ipld.DAGService) (uio.Directory, error) {
	var d uio.Directory
	var err error
	switch c.layout {
	case "basic":
		d, err = uio.NewBasicDirectory(dserv, c.opts()...)
	case "hamt":
		d, err = uio.NewHAMTDirectory(dserv, 0, c.opts()...)
	default:
		d, err = uio.NewDirectory(dserv, c.opts()...)
	}
	if err != nil {
		return nil, err
	}
	if t := c.threshold(); t > 0 {
		d.SetHAMTShardingSize(t)
	}
	return d, nil
}

// reload builds a directory from the serialized root node, as after reading it
// back from a block store, and re-applies the configuration the way MFS does.
func (c cfg) reload(dserv ipld.DAGService, d uio.Directory) (uio.Directory, error) {
	nd, err := d.GetNode()
	if err != nil {
		return nil, fmt.Errorf("GetNode: %w", err)
	}
	blk, err := blocks.NewBlockWithCid(nd.RawData(), nd.Cid())
	if err != nil {
		return nil, err
	}
	n2, err := merkledag.DecodeProtobufBlock(blk)
	if err != nil {
		return nil, fmt.Errorf("decode root: %w", err)
	}
	var nd2 uio.Directory
	switch c.layout {
	case "basic":
		nd2 = uio.NewBasicDirectoryFromNode(dserv, n2.(*merkledag.ProtoNode))
	case "hamt":
		nd2, err = uio.NewHAMTDirectoryFromNode(dserv, n2)
	default:
		nd2, err = uio.NewDirectoryFromNode(dserv, n2)
	}
	if err != nil {
		return nil, err
	}
	if c.layout == "hamt" && c.stat != 0 {
		// NewDirectoryFromNode restores mode/mtime from the root; the pure-HAMT
		// constructor leaves that to the caller, like the other settings
		nd2.SetStat(statClasses[c.stat].mode, statClasses[c.stat].mtime)
	}
	nd2.SetMaxLinks(c.maxLinks)
	nd2.SetMaxHAMTFanout(c.width)
	nd2.SetSizeEstimationMode(c.estMode())
	if t := c.threshold(); t > 0 {
		nd2.SetHAMTShardingSize(t)
	}
	return nd2, nil
}

// ---------------------------------------------------------------- independent size / rule

func linksSize(m map[string]int) int {
	n := 0
	for name, t := range m {
		n += len(name) + len(targets[t].Cid().Bytes())
	}
	return n
}

// blockSize serializes an independent dag-pb directory node with these entries.
func (c cfg) blockSize(m map[string]int) int {
	var data []byte
	if c.stat != 0 {
		data = unixfs.FolderPBDataWithStat(statClasses[c.stat].mode, statClasses[c.stat].mtime)
	} else {
		data = unixfs.FolderPBData()
	}
	nd := merkledag.NodeWithData(data)
	for name, t := range m {
		if err := nd.AddRawLink(name, &ipld.Link{Cid: targets[t].Cid(), Size: tsize[t]}); err != nil {
			panic(err)
		}
	}
	return len(nd.RawData())
}

// ruleSharded is the documented rule evaluated on the final entry set:
// sharded iff estimated size > threshold (unless size estimation is disabled)
// or link count > maxLinks (when set).
func (c cfg) ruleSharded(m map[string]int) (bool, string) {
	if c.layout == "hamt" {
		return true, "pure-hamt"
	}
	if c.layout == "basic" {
		return false, "pure-basic"
	}
	if c.maxLinks > 0 && len(m) > c.maxLinks {
		return true, "links>maxLinks"
	}
	switch c.est {
	case "links":
		if linksSize(m) > c.effectiveThreshold() {
			return true, "size>threshold"
		}
	case "block":
		if c.blockSize(m) > c.effectiveThreshold() {
			return true, "size>threshold"
		}
	}
	return false, "below"
}

// ---------------------------------------------------------------- the system under exploration

type sys struct {
	r        *eng.Run
	c        cfg
	cfgStr   string
	dserv    ipld.DAGService
	dir      uio.Directory
	model    map[string]int
	path     []string
	poisoned bool
	reloaded bool // a reload happened on this path
	key      string
	// fork: a second directory built from the LIVE GetNode() object of the first;
	// the first stays alive as shadow and must keep showing its own entries
	shadow       uio.Directory
	shadowModel  map[string]int
	shadowCid    cid.Cid
	convertedNow bool   // the last operation converted basic<->HAMT
	wasHamt      bool   // the directory has been a HAMT at some point of this history
	lostBy       string // operation and conversion in which the configured threshold disappeared
}

func newSys(r *eng.Run, cs string) eng.Sys {
	c := parseCfg(cs)
	s := &sys{r: r, c: c, cfgStr: cs, dserv: mdtest.Mock(), model: map[string]int{}}
	// the caller of AddChild owns storing the child nodes (BasicDirectory does not do it)
	if err := s.dserv.AddMany(ctx, targets); err != nil {
		panic(err)
	}
	d, err := c.newDir(s.dserv)
	if err != nil {
		panic(fmt.Sprintf("harness: cannot create directory for %s: %v", cs, err))
	}
	s.dir = d
	return s
}

func (s *sys) Close() {}

// under returns the concrete directory behind a DynamicDirectory.
func under(d uio.Directory) uio.Directory {
	if dd, ok := d.(*uio.DynamicDirectory); ok {
		return dd.Directory
	}
	return d
}

func (s *sys) kind() string {
	switch under(s.dir).(type) {
	case *uio.HAMTDirectory:
		return "hamt"
	case *uio.BasicDirectory:
		return "basic"
	}
	return "?"
}

func (s *sys) state() string {
	switch d := under(s.dir).(type) {
	case *uio.HAMTDirectory:
		return d.VerifState()
	case *uio.BasicDirectory:
		return d.VerifState()
	}
	return "?"
}

// tree returns the in-memory HAMT tree dump, "" for a basic directory.
func (s *sys) tree() string {
	if h, ok := under(s.dir).(*uio.HAMTDirectory); ok {
		return h.VerifTreeDump()
	}
	return ""
}

func (s *sys) modelKey() string {
	ks := make([]string, 0, len(s.model))
	for n, t := range s.model {
		ks = append(ks, fmt.Sprintf("%s=%d", tagOf(n), t))
	}
	sort.Strings(ks)
	return strings.Join(ks, ",")
}

func tagOf(name string) string {
	for _, n := range pool {
		if n.name == name {
			return n.tag
		}
	}
	return fmt.Sprintf("%q", name)
}

// Key = map model + every private field that can influence the future + the
// in-memory HAMT tree (with loaded/unloaded children) + the CID of the current
// root node (so that equal keys imply equal observable content even if the
// implementation has diverged from the model).
func (s *sys) Key() string {
	k := "M{" + s.modelKey() + "}|" + s.state()
	if s.poisoned {
		k += "|poisoned"
	} else if nd, err := s.dir.GetNode(); err == nil {
		k += "|root=" + nd.Cid().String()
	} else {
		k += "|root-error=" + err.Error()
	}
	if s.shadow != nil {
		d, m := s.dir, s.model
		s.dir, s.model = s.shadow, s.shadowModel
		k += "|SHADOW M{" + s.modelKey() + "}|" + s.state()
		if nd, err := s.dir.GetNode(); err == nil {
			k += "|root=" + nd.Cid().String()
		}
		s.dir, s.model = d, m
	}
	s.key = k
	return k
}

// checkShadow: the directory a fork was taken from must still show exactly the
// entries it had at the fork, whatever happened to the fork since (no aliasing).
func (s *sys) checkShadow() *eng.Violation {
	d, m := s.dir, s.model
	s.dir, s.model = s.shadow, s.shadowModel
	defer func() { s.dir, s.model = d, m }()
	const where = "original-after-fork-was-edited"
	if prop == "C16" {
		c, _, err := rootInfo(s.dir)
		if err != nil {
			return eng.V("getnode-error", "GetNode", err.Error(), s.feats("on", where)...)
		}
		if !c.Equals(s.shadowCid) {
			return eng.V("root-cid-changed-without-edit", "", fmt.Sprintf("config %s: directory {%s} had root %s when NewDirectoryFromNode(GetNode()) was taken from it; after edits of that second directory only, its root is %s", s.cfgStr, s.modelKey(), s.shadowCid, c), s.feats("on", where)...)
		}
		return nil
	}
	links, err := s.dir.Links(ctx)
	if v := s.compareList("Links", s.dir, listOf(links), err, "on", where); v != nil {
		return v
	}
	for _, n := range pool {
		t, had := s.model[n.name]
		g, err := s.dir.Find(ctx, n.name)
		if v := s.judgeFind("Find", n.name, had, t, g, err); v != nil {
			v.Features["on"] = where
			return v
		}
	}
	return nil
}

// checkedStates remembers the canonical states whose (deterministic, read-only)
// global check already passed, so that the many transitions that lead to an
// already visited state do not repeat it.
var checkedStates sync.Map

func (s *sys) Ops() []string {
	if s.poisoned {
		return nil
	}
	ops := []string{}
	for _, n := range pool {
		ops = append(ops, "add "+n.tag+" 0")
	}
	for _, n := range pool {
		if n.alt {
			ops = append(ops, "add "+n.tag+" 1")
		}
	}
	for _, n := range pool {
		if _, ok := s.model[n.name]; ok || prop == "C15" {
			ops = append(ops, "rm "+n.tag)
		}
	}
	ops = append(ops, "reload")
	// only while basic (the only layout whose GetNode() hands out a live, mutable
	// node) and only where at least one edit can still follow within the depth bound
	if s.c.layout == "dyn" && s.shadow == nil && s.kind() == "basic" && len(s.path) <= eng.Pick(s.r, 3, 5) {
		ops = append(ops, "fork")
	}
	if h, ok := under(s.dir).(*uio.HAMTDirectory); ok && strings.Contains(h.VerifTreeDump(), "L(") {
		// Find loads the shards on its path: a state-changing observer
		for _, n := range pool {
			if n.find {
				ops = append(ops, "find "+n.tag)
			}
		}
	}
	return ops
}

func (s *sys) feats(kv ...string) []string {
	_, hasEmpty := s.model[""]
	return append([]string{"layout", s.c.layout, "kind", s.kind(), "has_empty_name", fmt.Sprint(hasEmpty)}, kv...)
}

// errKind classifies an unexpected error message (defect-class feature).
func errKind(err error) string {
	switch {
	case err == nil:
		return "none"
	case strings.Contains(err.Error(), "maxLinks reached"):
		return "maxlinks-reached"
	case errors.Is(err, os.ErrNotExist):
		return "notexist"
	}
	return "other"
}

func errClass(err error) string {
	switch {
	case err == nil:
		return "ok"
	case errors.Is(err, os.ErrNotExist):
		return "notexist"
	}
	return "err"
}

func (s *sys) Do(op string) (string, *eng.Violation) {
	s.path = append(s.path, op)
	f := strings.Fields(op)
	before := s.kind()
	thrBefore := s.dir.GetHAMTShardingSize()
	var obs string
	var v *eng.Violation
	switch f[0] {
	case "add":
		n := byTag[f[1]]
		t := 0
		if f[2] == "1" {
			t = 1
		}
		_, had := s.model[n.name]
		err := s.dir.AddChild(ctx, n.name, targets[t])
		obs = errClass(err)
		// documented exception: a pure BasicDirectory refuses new names beyond MaxLinks
		refusal := s.c.layout == "basic" && s.c.maxLinks > 0 && !had && len(s.model)+1 > s.c.maxLinks
		switch {
		case err == nil && refusal:
			v = eng.V("maxlinks-not-enforced", "AddChild", fmt.Sprintf("pure BasicDirectory with MaxLinks=%d accepted entry number %d", s.c.maxLinks, len(s.model)+1), s.feats()...)
		case err == nil:
			s.model[n.name] = t
		case refusal:
			obs = "refused(maxLinks)"
		default:
			s.poisoned = true
			v = eng.V("addchild-error", "AddChild", fmt.Sprintf("AddChild(%s -> target %d) on %s directory holding {%s} failed: %v", n.tag, t, before, s.modelKey(), err),
				s.feats("name_class", n.class, "replace", fmt.Sprint(had), "reloaded", fmt.Sprint(s.reloaded), "error", errKind(err))...)
		}
	case "rm":
		n := byTag[f[1]]
		_, had := s.model[n.name]
		treeBefore := s.tree()
		err := s.dir.RemoveChild(ctx, n.name)
		obs = errClass(err)
		if had && err == nil && treeBefore != "" {
			// coverage of the shard-collapse shortcut in hamt.swapValue
			if after := s.tree(); after != "" && strings.Count(after, "S[") < strings.Count(treeBefore, "S[") {
				s.r.Add("removals_collapsing_a_subshard", 1)
				if strings.Contains(treeBefore, "L(") {
					s.r.Add("removals_collapsing_a_subshard_with_unloaded_children", 1)
				}
			}
		}
		switch {
		case had && err != nil:
			s.poisoned = true
			v = eng.V("removechild-error", "RemoveChild", fmt.Sprintf("RemoveChild(%s) on %s directory holding {%s} failed: %v", n.tag, before, s.modelKey(), err),
				s.feats("name_class", n.class, "reloaded", fmt.Sprint(s.reloaded), "error", errKind(err))...)
		case had:
			delete(s.model, n.name)
		case err == nil:
			v = eng.V("remove-missing-succeeded", "RemoveChild", fmt.Sprintf("RemoveChild(%s): name is not in the directory {%s} but no error was returned", n.tag, s.modelKey()), s.feats("name_class", n.class)...)
		case !errors.Is(err, os.ErrNotExist):
			v = eng.V("remove-missing-wrong-error", "RemoveChild", fmt.Sprintf("RemoveChild(%s) of a missing name returned %v, want os.ErrNotExist", n.tag, err), s.feats("name_class", n.class, "reloaded", fmt.Sprint(s.reloaded), "error", errKind(err))...)
		}
	case "reload":
		nd, err := s.c.reload(s.dserv, s.dir)
		if err != nil {
			s.poisoned = true
			obs = "err"
			v = eng.V("reload-error", "NewDirectoryFromNode", fmt.Sprintf("reloading the %s directory holding {%s} from its root node failed: %v", before, s.modelKey(), err), s.feats()...)
			break
		}
		s.dir = nd
		s.reloaded = true
		obs = "ok"
		if before == "hamt" {
			s.r.Add("reloads_of_hamt", 1)
		}
	case "fork":
		// NewDirectoryFromNode on the node object GetNode() hands out (no trip through
		// bytes): the new directory is edited from now on, the old one is kept
		live, err := s.dir.GetNode()
		var nd uio.Directory
		if err == nil {
			nd, err = uio.NewDirectoryFromNode(s.dserv, live)
		}
		if err != nil {
			s.poisoned = true
			obs = "err"
			v = eng.V("reload-error", "NewDirectoryFromNode", fmt.Sprintf("NewDirectoryFromNode(GetNode()) of the %s directory holding {%s} failed: %v", before, s.modelKey(), err), s.feats()...)
			break
		}
		nd.SetMaxLinks(s.c.maxLinks)
		nd.SetMaxHAMTFanout(s.c.width)
		nd.SetSizeEstimationMode(s.c.estMode())
		if t := s.c.threshold(); t > 0 {
			nd.SetHAMTShardingSize(t)
		}
		s.shadow, s.shadowModel, s.shadowCid = s.dir, map[string]int{}, live.Cid()
		for k, t := range s.model {
			s.shadowModel[k] = t
		}
		s.dir = nd
		s.reloaded = true
		obs = "ok"
		s.r.Add("forks_from_live_node_"+before, 1)
	case "find":
		n := byTag[f[1]]
		t, had := s.model[n.name]
		got, err := s.dir.Find(ctx, n.name)
		obs = errClass(err)
		if v = s.judgeFind("Find", n.name, had, t, got, err); v != nil {
			break
		}
	}
	after := s.kind()
	s.convertedNow = before != after
	if after == "hamt" {
		s.wasHamt = true
	}
	if thrNow := s.dir.GetHAMTShardingSize(); thrNow != thrBefore {
		if thrNow == s.c.threshold() {
			s.lostBy = "" // re-applied (reload)
		} else {
			s.lostBy = f[0] + ":" + before + "->" + after
		}
	}
	if before != after {
		obs += ":" + before + "->" + after
		s.r.Add("conversions_"+before+"_to_"+after, 1)
	} else {
		obs += ":" + after
	}
	if prop == "C16" && v != nil {
		// C16 does not judge the map behaviour (that is C15): stop this path quietly
		s.r.Add("paths_stopped_by_edit_error", 1)
		return obs + ":edit-error", nil
	}
	return obs, v
}

func (s *sys) judgeFind(api, name string, had bool, t int, got ipld.Node, err error) *eng.Violation {
	if had {
		if err != nil {
			return eng.V("stored-name-not-found", api, fmt.Sprintf("%s(%s) on %s directory holding {%s}: %v", api, tagOf(name), s.kind(), s.modelKey(), err), s.feats("name_class", classOf(name))...)
		}
		if !got.Cid().Equals(targets[t].Cid()) {
			return eng.V("find-wrong-entry", api, fmt.Sprintf("%s(%s) returned %s, want %s", api, tagOf(name), got.Cid(), targets[t].Cid()), s.feats("name_class", classOf(name))...)
		}
		return nil
	}
	if err == nil {
		return eng.V("find-missing-succeeded", api, fmt.Sprintf("%s(%s) of a name that is not stored returned %s; directory {%s}", api, tagOf(name), got.Cid(), s.modelKey()), s.feats("name_class", classOf(name))...)
	}
	if !errors.Is(err, os.ErrNotExist) {
		return eng.V("find-missing-wrong-error", api, fmt.Sprintf("%s(%s) of a missing name returned %v, want os.ErrNotExist", api, tagOf(name), err), s.feats("name_class", classOf(name))...)
	}
	return nil
}

func (s *sys) Check() *eng.Violation {
	if s.poisoned {
		return nil
	}
	ck := ""
	if s.key != "" {
		ck = strings.TrimSuffix(s.cfgStr, "/deep") + "\x00" + s.key
		if _, done := checkedStates.Load(ck); done {
			s.r.Add("checks_skipped_state_already_checked", 1)
			return nil
		}
	}
	var v *eng.Violation
	if s.shadow != nil {
		v = s.checkShadow()
	}
	if v != nil {
		return v
	}
	if prop == "C16" {
		v = s.checkC16()
	} else {
		v = s.checkC15()
	}
	if v == nil && ck != "" {
		checkedStates.Store(ck, struct{}{})
	}
	return v
}

// ---------------------------------------------------------------- C15: map model

func entryKey(name string, c cid.Cid, size uint64) string {
	return fmt.Sprintf("%s\x00%s\x00%d", name, c, size)
}

func (s *sys) wantList() []string {
	out := make([]string, 0, len(s.model))
	for n, t := range s.model {
		out = append(out, entryKey(n, targets[t].Cid(), tsize[t]))
	}
	sort.Strings(out)
	return out
}

func listOf(links []*ipld.Link) []string {
	out := make([]string, 0, len(links))
	for _, l := range links {
		out = append(out, entryKey(l.Name, l.Cid, l.Size))
	}
	sort.Strings(out)
	return out
}

func pretty(l []string) string {
	p := []string{}
	for _, e := range l {
		f := strings.Split(e, "\x00")
		c := f[1]
		if len(c) > 8 {
			c = c[len(c)-6:]
		}
		p = append(p, tagOf(f[0])+"->"+c+"/"+f[2])
	}
	return "{" + strings.Join(p, " ") + "}"
}

// diffClass names the class of the first entry name on which got and want differ.
func diffClass(got, want []string) (string, string) {
	gm, wm := map[string]bool{}, map[string]bool{}
	for _, e := range got {
		gm[e] = true
	}
	for _, e := range want {
		wm[e] = true
	}
	for _, e := range want {
		if !gm[e] {
			return classOf(strings.Split(e, "\x00")[0]), "missing"
		}
	}
	for _, e := range got {
		if !wm[e] {
			return classOf(strings.Split(e, "\x00")[0]), "extra"
		}
	}
	return "none", "duplicate"
}

func (s *sys) compareList(api string, d uio.Directory, got []string, err error, extra ...string) *eng.Violation {
	want := s.wantList()
	if err != nil {
		return eng.V("enumeration-error", api, fmt.Sprintf("%s on %s directory holding %s failed: %v", api, s.kind(), pretty(want), err), s.feats(extra...)...)
	}
	if strings.Join(got, "\x01") != strings.Join(want, "\x01") {
		cl, how := diffClass(got, want)
		return eng.V("listing-differs-from-map", api, fmt.Sprintf("%s on %s directory = %s, map model = %s", api, s.kind(), pretty(got), pretty(want)),
			s.feats(append([]string{"name_class", cl, "how", how}, extra...)...)...)
	}
	return nil
}

func collectAsync(d uio.Directory) ([]string, error) {
	var links []*ipld.Link
	for lr := range d.EnumLinksAsync(ctx) {
		if lr.Err != nil {
			return nil, lr.Err
		}
		links = append(links, lr.Link)
	}
	return listOf(links), nil
}

func collectForEach(d uio.Directory) ([]string, error) {
	var out []string
	err := d.ForEachLink(ctx, func(l *ipld.Link) error {
		out = append(out, entryKey(l.Name, l.Cid, l.Size))
		return nil
	})
	sort.Strings(out)
	return out, err
}

func (s *sys) checkC15() *eng.Violation {
	// pure observers first, tree-loading observers (Find, ForEachLink) last
	links, err := s.dir.Links(ctx)
	if v := s.compareList("Links", s.dir, listOf(links), err); v != nil {
		return v
	}
	got, err := collectAsync(s.dir)
	if v := s.compareList("EnumLinksAsync", s.dir, got, err); v != nil {
		return v
	}
	// reload from the root node: same entries, every stored name resolves
	cp, err := s.c.reload(s.dserv, s.dir)
	if err != nil {
		return eng.V("reload-error", "NewDirectoryFromNode", fmt.Sprintf("reloading the %s directory holding {%s} from its root node failed: %v", s.kind(), s.modelKey(), err), s.feats()...)
	}
	links, err = cp.Links(ctx)
	if v := s.compareList("Links", cp, listOf(links), err, "on", "reloaded-copy"); v != nil {
		return v
	}
	for _, n := range pool {
		t, had := s.model[n.name]
		g, err := cp.Find(ctx, n.name)
		if v := s.judgeFind("Find", n.name, had, t, g, err); v != nil {
			v.Features["on"] = "reloaded-copy"
			return v
		}
	}
	got, err = collectForEach(cp)
	if v := s.compareList("ForEachLink", cp, got, err, "on", "reloaded-copy"); v != nil {
		return v
	}
	for _, n := range pool {
		t, had := s.model[n.name]
		g, err := s.dir.Find(ctx, n.name)
		if v := s.judgeFind("Find", n.name, had, t, g, err); v != nil {
			return v
		}
	}
	got, err = collectForEach(s.dir)
	if v := s.compareList("ForEachLink", s.dir, got, err); v != nil {
		return v
	}
	if len(s.model) >= 2 {
		s.r.Add("checked_states_"+s.kind(), 1)
	}
	return nil
}

// ---------------------------------------------------------------- C16: canonical build / sharding rule

func rootInfo(d uio.Directory) (cid.Cid, bool, error) {
	nd, err := d.GetNode()
	if err != nil {
		return cid.Undef, false, err
	}
	fsn, err := unixfs.FSNodeFromBytes(nd.(*merkledag.ProtoNode).Data())
	if err != nil {
		return cid.Undef, false, err
	}
	return nd.Cid(), fsn.Type() == unixfs.THAMTShard, nil
}

// sizeChangeSign: sign of HAMTDirectory.sizeChange after the last operation.
// While it is non-negative the HAMT->basic size check is not even consulted
// (the documented-as-known gate); negative means sizeBelowThreshold was asked.
func (s *sys) sizeChangeSign() string {
	h, ok := under(s.dir).(*uio.HAMTDirectory)
	switch {
	case !ok:
		return "n/a"
	case h.VerifSizeChange() < 0:
		return "neg"
	}
	return "nonneg"
}

// selfReport reports v with its replay; known findings do not stop the exploration.
func (s *sys) selfReport(v *eng.Violation) *eng.Violation {
	v.Replay = map[string]any{"config": s.cfgStr, "ops": append([]string{}, s.path...)}
	if v.Op == "" && len(s.path) > 0 {
		v.Op = strings.Fields(s.path[len(s.path)-1])[0]
	}
	if s.r.Report(v) {
		return nil
	}
	return v
}

func (s *sys) checkC16() *eng.Violation {
	c, sharded, err := rootInfo(s.dir)
	if err != nil {
		return eng.V("getnode-error", "GetNode", err.Error(), s.feats()...)
	}
	sk := map[bool]string{true: "hamt", false: "basic"}
	// (0) the configured per-directory threshold must stay in force across conversions
	if got, cfgT := s.dir.GetHAMTShardingSize(), s.c.threshold(); got != cfgT {
		s.r.Add("threshold_lost_states", 1)
		det := fmt.Sprintf("config %s, entries {%s}: directory was configured with SetHAMTShardingSize(%d) but GetHAMTShardingSize() is now %d (root is %s); internal state: %s",
			s.cfgStr, s.modelKey(), cfgT, got, sk[sharded], s.state())
		v := s.selfReport(eng.V("per-directory-threshold-lost", "", det, s.feats("est", s.c.est, "lost_by", s.lostBy)...))
		if v != nil || !s.convertedNow {
			// in later states everything else is a consequence of the lost threshold;
			// in the converting step itself the decision was still taken with the
			// threshold in force, so the rule is evaluated below
			return v
		}
	}
	want, why := s.c.ruleSharded(s.model)
	common := []string{"est", s.c.est, "maxlinks_set", fmt.Sprint(s.c.maxLinks > 0), "reloaded", fmt.Sprint(s.reloaded), "converted_now", fmt.Sprint(s.convertedNow), "was_hamt", fmt.Sprint(s.wasHamt), "sizechange_after", s.sizeChangeSign()}
	if sharded != want {
		s.r.Add("rule_mismatches", 1)
		det := fmt.Sprintf("config %s, entries {%s} (links-size %d, block-size %d, threshold %d, %d links, maxLinks %d): documented rule says %s (%s) but the root is %s; internal state: %s",
			s.cfgStr, s.modelKey(), linksSize(s.model), s.c.blockSize(s.model), s.c.effectiveThreshold(), len(s.model), s.c.maxLinks, sk[want], why, sk[sharded], s.state())
		return s.selfReport(eng.V("sharding-rule-mismatch", "", det, s.feats(append(common, "actual", sk[sharded], "rule", why)...)...))
	}
	// canonical fresh build of the same entry set: sorted insertion into a new directory
	fresh, err := s.c.newDir(mdtest.Mock())
	if err != nil {
		panic(err)
	}
	names := make([]string, 0, len(s.model))
	for n := range s.model {
		names = append(names, n)
	}
	sort.Strings(names)
	for _, n := range names {
		if err := fresh.AddChild(ctx, n, targets[s.model[n]]); err != nil {
			s.r.Add("canonical_build_failed", 1)
			return nil // C15's business
		}
	}
	fc, fsharded, err := rootInfo(fresh)
	if err != nil {
		return nil
	}
	if fsharded != sharded {
		// the canonical history itself breaks the rule; it is reported on its own path
		s.r.Add("canonical_build_breaks_rule", 1)
		return nil
	}
	s.r.Add("cid_comparisons_"+sk[sharded], 1)
	if !fc.Equals(c) {
		det := fmt.Sprintf("config %s, entries {%s}: root CID %s after this history, %s for a fresh sorted build of the same entries (both %s); internal state: %s",
			s.cfgStr, s.modelKey(), c, fc, sk[sharded], s.state())
		return s.selfReport(eng.V("root-cid-depends-on-history", "", det, s.feats(append(common, "stat", fmt.Sprint(s.c.stat != 0))...)...))
	}
	return nil
}
