//go:build verif

// C16: the root CID of a dynamic / pure-HAMT directory depends only on the
// final entry set and the configuration, and the directory is sharded exactly
// when the documented rule says so.
package main

import (
	"encoding/json"

	"github.com/ipfs/boxo/verifshim/eng"
)

func configs(r *eng.Run) []string {
	var out []string
	add := func(c cfg) { out = append(out, c.String()) }
	add(cfg{layout: "hamt", width: 8, thr: "def", est: "links"})
	add(cfg{layout: "hamt", width: 16, thr: "def", est: "links", stat: 1, v1: true})
	widths := []int{8}
	if r.Thorough() {
		widths = []int{8, 256}
		add(cfg{layout: "hamt", width: 256, thr: "def", est: "links"})
		add(cfg{layout: "hamt", width: 1024, thr: "def", est: "links"})
	}
	for _, w := range widths {
		for _, est := range []string{"links", "block"} {
			for _, ml := range []int{0, 2, 3} {
				add(cfg{layout: "dyn", width: w, maxLinks: ml, thr: "tiny", est: est})
			}
			add(cfg{layout: "dyn", width: w, maxLinks: 2, thr: "def", est: est})
		}
		for _, ml := range []int{2, 3} {
			add(cfg{layout: "dyn", width: w, maxLinks: ml, thr: "def", est: "off"})
		}
		add(cfg{layout: "dyn", width: w, maxLinks: 0, thr: "tiny", est: "block", stat: 1})
		// block mode with Data fields of other size classes (epoch second 0, nanos,
		// negative seconds, no mode): the threshold sits exactly on {a,b,cA} + Data
		// field, so the Data-field term decides both conversion directions
		for _, st := range eng.Pick(r, []int{2, 3, 4}, []int{2, 3, 4, 5}) {
			if w == 8 {
				add(cfg{layout: "dyn", width: w, maxLinks: 0, thr: "tiny", est: "block", stat: st})
			}
		}
		if r.Thorough() && w == 8 {
			add(cfg{layout: "dyn", width: w, maxLinks: 3, thr: "tiny", est: "block", stat: 2})
			add(cfg{layout: "dyn", width: w, maxLinks: 2, thr: "def", est: "block", stat: 3})
		}
		add(cfg{layout: "dyn", width: w, maxLinks: 3, thr: "tiny", est: "links", stat: 1, v1: true})
	}
	return out
}

func spec(r *eng.Run) eng.SeqSpec {
	initPool(r)
	return eng.SeqSpec{
		Configs:    configs(r),
		New:        func(c string) eng.Sys { return newSys(r, c) },
		Depth:      eng.Pick(r, 6, 7),
		NonTrivial: func(cfg string, p []string) bool { return len(p) >= 2 },
	}
}

func main() {
	prop = "C16"
	eng.Main("C16", "model_checking", func(r *eng.Run) {
		r.Rule("BFS over AddChild (add / replace with a target of different CID length) / RemoveChild / reload-from-root-node / Find sequences on dynamic and pure-HAMT directories; successor = replay on a fresh real directory + 1 op; state = map model + private fields (sizeChange, totalLinks, estimatedSize, thresholds) + in-memory HAMT tree + root CID; in every reached state (a) the UnixFS type of the root is compared with the documented rule evaluated on the final entry set with independently computed sizes, (b) the root CID is compared with the CID of a fresh directory of the same configuration filled in sorted order; non-trivial = path of >= 2 operations")
		r.Assume("merkledag test DAGService correct; sizes for the rule are computed independently (sum of name+CID lengths; length of an independently serialized dag-pb node)")
		r.Assume("globals uio.HAMTShardingSize / HAMTSizeEstimation / DefaultShardWidth stay at their defaults; thresholds are configured per directory and calibrated so that {a,b,cA} with the first target is exactly at the threshold")
		sp := spec(r)
		r.Set("config_list", sp.Configs)
		eng.ExploreSeq(r, sp)
	}, func(r *eng.Run, raw json.RawMessage) { eng.ReplaySeq(r, spec(r), raw) })
}
