//go:build verif

package io

import "fmt"

// Read-only state dumps for the verification harness; no behaviour change.

func (d *BasicDirectory) VerifState() string {
	est := "global"
	if d.sizeEstimation != nil {
		est = fmt.Sprint(int(*d.sizeEstimation))
	}
	return fmt.Sprintf("basic est=%d links=%d maxLinks=%d fanout=%d thr=%d mode=%v mtime=%d.%d estmode=%s",
		d.estimatedSize, d.totalLinks, d.maxLinks, d.maxHAMTFanout, d.hamtShardingSize, d.mode, d.mtime.Unix(), d.mtime.Nanosecond(), est)
}

func (d *HAMTDirectory) VerifState() string {
	est := "global"
	if d.sizeEstimation != nil {
		est = fmt.Sprint(int(*d.sizeEstimation))
	}
	return fmt.Sprintf("hamt sizeChange=%d links=%d maxLinks=%d fanout=%d thr=%d mode=%v mtime=%d.%d estmode=%s width=%d tree=%s",
		d.sizeChange, d.totalLinks, d.maxLinks, d.maxHAMTFanout, d.hamtShardingSize, d.mode, d.mtime.Unix(), d.mtime.Nanosecond(), est, d.shard.VerifWidth(), d.shard.VerifDump())
}

func (d *HAMTDirectory) VerifTreeDump() string    { return d.shard.VerifDump() }
func (d *HAMTDirectory) VerifTotalLinks() int     { return d.totalLinks }
func (d *HAMTDirectory) VerifSizeChange() int     { return d.sizeChange }
func (d *BasicDirectory) VerifTotalLinks() int    { return d.totalLinks }
func (d *BasicDirectory) VerifEstimatedSize() int { return d.estimatedSize }
func (d *BasicDirectory) VerifThreshold() int     { return d.hamtShardingSize }
func (d *HAMTDirectory) VerifThreshold() int      { return d.hamtShardingSize }
