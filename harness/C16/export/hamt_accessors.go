//go:build verif

package hamt

import (
	"fmt"
	"strings"
)

// VerifDump renders the in-memory trie (read-only): for every occupied slot
// either a loaded value V("key"), a loaded sub-shard S[...] or an unloaded
// link L("linkname"). Used as canonical hidden state by the verification
// harness; no behaviour change.
func (ds *Shard) VerifDump() string {
	var sb strings.Builder
	ds.verifDump(&sb, 0)
	return sb.String()
}

func (ds *Shard) verifDump(sb *strings.Builder, depth int) {
	if depth > 64 {
		sb.WriteString("<too deep>")
		return
	}
	sb.WriteString("[")
	si := 0
	for idx := 0; idx < ds.tableSize; idx++ {
		if !ds.childer.has(idx) {
			continue
		}
		if si >= len(ds.childer.children) || si >= len(ds.childer.links) {
			fmt.Fprintf(sb, "%d:<corrupt>", idx)
			break
		}
		if ch := ds.childer.children[si]; ch != nil {
			if ch.val != nil {
				fmt.Fprintf(sb, "%d:V(%q)", idx, ch.key)
			} else {
				fmt.Fprintf(sb, "%d:S", idx)
				ch.verifDump(sb, depth+1)
			}
		} else if l := ds.childer.links[si]; l != nil {
			fmt.Fprintf(sb, "%d:L(%q)", idx, l.Name)
		} else {
			fmt.Fprintf(sb, "%d:<nil>", idx)
		}
		si++
	}
	sb.WriteString("]")
}

// VerifWidth returns the shard's table size.
func (ds *Shard) VerifWidth() int { return ds.tableSize }
