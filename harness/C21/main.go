//go:build verif

package main

import (
	"context"
	"encoding/json"
	"errors"
	"fmt"
	"strings"
	"time"

	"github.com/ipfs/boxo/mfs"
	"github.com/ipfs/boxo/verifshim/eng"
	"github.com/ipfs/boxo/verifshim/vexp"
	"github.com/ipfs/boxo/verifshim/vsched"
	cid "github.com/ipfs/go-cid"
	mh "github.com/multiformats/go-multihash"
)

var vals []cid.Cid

func init() {
	for i := 0; i < 5; i++ {
		h, _ := mh.Sum([]byte{byte(i)}, mh.SHA2_256, -1)
		vals = append(vals, cid.NewCidV1(cid.Raw, h))
	}
}

func idx(c cid.Cid) int {
	for i, v := range vals {
		if v.Equals(c) {
			return i
		}
	}
	return -1
}

// event log with a logical clock
type ev struct {
	kind string // upd-start upd-ret pub-ok pub-fail wait-start wait-ret close-start close-ret
	val  int
	thr  int
	err  string
}

type script struct {
	name     string
	updaters [][]int // per updater thread: value indices in issue order
	waiters  int
	closer   bool
	last     int // lastPublished index at construction (-1 = undef)
	tshort   time.Duration
	tlong    time.Duration
	// waitAfter: the WaitPub thread first waits for updater 0 to finish (sequential handover)
	waitAfter bool
}

type exec struct {
	sc  *script
	log []ev
}

func (x *exec) rec(kind string, val, thr int, err error) {
	e := ev{kind: kind, val: val, thr: thr}
	if err != nil {
		e.err = err.Error()
	}
	x.log = append(x.log, e)
}

func (x *exec) Main() {
	sc := x.sc
	pf := func(ctx context.Context, c cid.Cid) error {
		vsched.Yield("pubfunc")
		if vsched.Choose(2, 1) == 1 {
			x.rec("pub-fail", idx(c), -1, nil)
			return errors.New("injected publish failure")
		}
		x.rec("pub-ok", idx(c), -1, nil)
		return nil
	}
	last := cid.Undef
	if sc.last >= 0 {
		last = vals[sc.last]
	}
	rp := mfs.NewRepublisher(pf, sc.tshort, sc.tlong, last)
	updDone := vsched.Reg(make(chan struct{}))
	for t, seq := range sc.updaters {
		t, seq := t, seq
		vsched.GoNamed(fmt.Sprintf("updater%d", t), true, func() {
			for _, v := range seq {
				if v < 0 {
					// a pause longer than the quick timer: lets the pending value be published (or fail) first
					vsched.Sleep(2 * time.Second)
					continue
				}
				x.rec("upd-start", v, t, nil)
				rp.Update(vals[v])
				x.rec("upd-ret", v, t, nil)
			}
			if t == 0 {
				vsched.Close(updDone)
			}
		})
	}
	for wi := 0; wi < sc.waiters; wi++ {
		wi := wi
		// WaitPub on a republisher that is being closed may block forever (outside the property): not a driver then
		vsched.GoNamed(fmt.Sprintf("waiter%d", wi), !sc.closer, func() {
			if sc.waitAfter {
				vsched.Recv((<-chan struct{})(updDone))
			}
			x.rec("wait-start", 0, 100+wi, nil)
			err := rp.WaitPub(context.Background())
			x.rec("wait-ret", 0, 100+wi, err)
		})
	}
	if sc.closer {
		vsched.GoNamed("closer", true, func() {
			if sc.waitAfter {
				vsched.Recv((<-chan struct{})(updDone))
			}
			x.rec("close-start", 0, 200, nil)
			err := rp.Close()
			x.rec("close-ret", 0, 200, err)
		})
	}
}

func (x *exec) AtEnd(*vsched.Result) {}

func (x *exec) Outcome() string {
	var sb strings.Builder
	for _, e := range x.log {
		if strings.HasPrefix(e.kind, "pub") || strings.HasSuffix(e.kind, "-ret") && e.kind != "upd-ret" {
			fmt.Fprintf(&sb, "%s:%d:%s ", e.kind, e.val, e.err)
		}
	}
	return sb.String()
}

// hb reports whether update call a (by log positions) happened before update call b.
type upd struct {
	val, thr   int
	start, ret int // log positions; ret = -1 if never returned
}

func (x *exec) updates() []upd {
	var us []upd
	for i, e := range x.log {
		switch e.kind {
		case "upd-start":
			us = append(us, upd{val: e.val, thr: e.thr, start: i, ret: -1})
		case "upd-ret":
			for j := len(us) - 1; j >= 0; j-- {
				if us[j].thr == e.thr && us[j].ret < 0 {
					us[j].ret = i
					break
				}
			}
		}
	}
	return us
}

func hb(a, b upd) bool { return a.ret >= 0 && a.ret < b.start }

func (x *exec) Check(res *vsched.Result) *eng.Violation {
	us := x.updates()
	logStr := x.logString()
	var oks []int // log positions of successful publishes
	for i, e := range x.log {
		if e.kind == "pub-ok" {
			oks = append(oks, i)
		}
	}
	// cur(r): value published most recently before log position r (initially the constructor's lastPublished)
	cur := func(r int) int {
		c := x.sc.last
		for _, p := range oks {
			if p < r {
				c = x.log[p].val
			}
		}
		return c
	}
	// covered(u, r): u's value is the currently published one at r, or some value whose Update call is u itself or
	// not ordered before u (concurrent or later) was successfully published after that call started and before r.
	covered := func(u upd, r int) bool {
		for _, w := range us {
			if w.start >= r || (w.start != u.start && hb(w, u)) {
				continue // w must be u itself or an Update not ordered before u, already started
			}
			if cur(r) == w.val {
				return true // the published value is w's ("unless it equals the last published one")
			}
			for _, p := range oks {
				if p < r && p > w.start && x.log[p].val == w.val {
					return true
				}
			}
		}
		return false
	}
	// overlap: some Update call was in flight at any time between log positions a and b
	overlap := func(a, b int) bool {
		for _, u := range us {
			if u.start < b && (u.ret < 0 || u.ret > a) {
				return true
			}
		}
		return false
	}
	// (1) never regress: X successfully published after Y although, under every attribution, X is strictly older than Y
	for a := 0; a < len(oks); a++ {
		for b := a + 1; b < len(oks); b++ {
			Y, X := x.log[oks[a]].val, x.log[oks[b]].val
			if X == Y {
				continue
			}
			older, any := true, false
			for _, ux := range us {
				if ux.val != X || ux.start >= oks[b] {
					continue
				}
				any = true
				found := false
				for _, uy := range us {
					if uy.val == Y && uy.start < oks[a] && hb(ux, uy) {
						found = true
					}
				}
				if !found {
					older = false
				}
			}
			if any && older {
				return eng.V("regress", "publish", fmt.Sprintf("published v%d after v%d although every Update(v%d) returned before an Update(v%d) started\n%s", X, Y, X, Y, logStr))
			}
		}
	}
	closeRet, closeStart, closeErr := -1, -1, ""
	for i, e := range x.log {
		if e.kind == "close-start" {
			closeStart = i
		}
		if e.kind == "close-ret" {
			closeRet, closeErr = i, e.err
		}
	}
	uncovered := func(s, r int) (string, bool) {
		for _, u := range us {
			if u.ret >= 0 && u.ret < s && !covered(u, r) {
				return fmt.Sprintf("v%d (updater %d)", u.val, u.thr), true
			}
		}
		return "", false
	}
	// (2) WaitPub
	for i, e := range x.log {
		if e.kind != "wait-ret" || e.err != "" {
			continue
		}
		ws := -1
		for j := i - 1; j >= 0; j-- {
			if x.log[j].kind == "wait-start" && x.log[j].thr == e.thr {
				ws = j
				break
			}
		}
		if what, bad := uncovered(ws, i); bad {
			return eng.V("waitpub-early", "WaitPub", fmt.Sprintf("WaitPub returned nil although %s, handed over before the call, was neither published nor superseded by a published later value\n%s", what, logStr), "update_in_flight_during_call", fmt.Sprint(overlap(ws, i)))
		}
	}
	// (3) Close
	if closeRet >= 0 {
		for i, e := range x.log {
			if i > closeRet && (e.kind == "pub-ok" || e.kind == "pub-fail") {
				return eng.V("publish-after-close", "Close", "a publish attempt happened after Close returned\n"+logStr)
			}
		}
		if closeErr == "" {
			if what, bad := uncovered(closeStart, closeRet); bad {
				return eng.V("close-lost-pending", "Close", fmt.Sprintf("Close returned nil although %s, handed over before Close was called, was neither published nor superseded\n%s", what, logStr), "update_in_flight_during_call", fmt.Sprint(overlap(closeStart, closeRet)))
			}
		}
	}
	// (4) eventually the most recent value (scenarios without Close): at quiescence every returned update is covered
	if closeStart < 0 && res.Verdict == "ok" {
		if what, bad := uncovered(len(x.log), len(x.log)); bad {
			return eng.V("latest-not-published", "quiescence", fmt.Sprintf("at quiescence (all timers fired) %s was neither published nor superseded by a published later value\n%s", what, logStr))
		}
	}
	return nil
}

func (x *exec) logString() string {
	var sb strings.Builder
	for i, e := range x.log {
		fmt.Fprintf(&sb, "  %2d %s v%d thr=%d %s\n", i, e.kind, e.val, e.thr, e.err)
	}
	return sb.String()
}

func scenarios(r *eng.Run) []*vexp.Scenario {
	scripts := []*script{
		{name: "upd3", updaters: [][]int{{1, 2, 3}}, last: -1, tshort: time.Second, tlong: 3 * time.Second},
		{name: "upd2-wait", updaters: [][]int{{1, 2}}, waiters: 1, last: -1, tshort: time.Second, tlong: 3 * time.Second},
		{name: "upd2-then-wait", updaters: [][]int{{1, 2}}, waiters: 1, waitAfter: true, last: -1, tshort: time.Second, tlong: 3 * time.Second},
		{name: "upd2-then-close", updaters: [][]int{{1, 2}}, closer: true, waitAfter: true, last: -1, tshort: time.Second, tlong: 3 * time.Second},
		{name: "upd2-close-race", updaters: [][]int{{1, 2}}, closer: true, last: -1, tshort: time.Second, tlong: 3 * time.Second},
		{name: "dup-last", updaters: [][]int{{0, 1, 0}}, waiters: 1, last: 0, tshort: time.Second, tlong: 3 * time.Second},
		{name: "two-updaters", updaters: [][]int{{1, 3}, {2}}, last: -1, tshort: time.Second, tlong: 3 * time.Second},
		{name: "two-waiters", updaters: [][]int{{1}}, waiters: 2, last: -1, tshort: time.Second, tlong: 3 * time.Second},
		{name: "wait-close", updaters: [][]int{{1}}, waiters: 1, closer: true, last: -1, tshort: time.Second, tlong: 3 * time.Second},
		// a failed publish (retry mode) superseded by a value that is already published, then WaitPub
		{name: "retry-then-dup-wait", updaters: [][]int{{1, -1, 0}}, waiters: 1, waitAfter: true, last: 0, tshort: time.Second, tlong: 3 * time.Second},
		{name: "retry-dup-wait-race", updaters: [][]int{{1, -1, 0}}, waiters: 1, last: 0, tshort: time.Second, tlong: 3 * time.Second},
		{name: "retry-then-dup-close", updaters: [][]int{{1, -1, 0}}, closer: true, waitAfter: true, last: 0, tshort: time.Second, tlong: 3 * time.Second},
		{name: "slow-retry-close", updaters: [][]int{{1}}, closer: true, waitAfter: true, last: -1, tshort: time.Second, tlong: 10 * time.Second},
	}
	var out []*vexp.Scenario
	for _, s := range scripts {
		s := s
		delta := 0
		if len(s.updaters)+s.waiters >= 3 || (s.waiters > 0 && s.closer) {
			delta = -1 // four or more threads: one deviation less
		}
		out = append(out, &vexp.Scenario{
			Name: s.name, BoundDelta: delta,
			Cfg:  vsched.Config{MaxSteps: 20000, MaxIdleFires: 12, SelectCost: 1},
			New:  func() vexp.Exec { return &exec{sc: s} },
		})
	}
	return out
}

func main() {
	var scs []*vexp.Scenario
	eng.WorkerMain = func() { vexp.Register(scenarios(nil)...); eng.WorkerMain() }
	eng.Main("C21", "model_checking", func(r *eng.Run) {
		scs = scenarios(r)
		r.Rule("every schedule (thread interleaving, timer firing order, select-case choice, injected publish failure) of each scenario with at most B deviations from the default run-to-completion schedule; a case is non-trivial when it has >= 1 deviation; each execution is a distinct choice sequence run on the rewritten real Republisher")
		r.Assume("vsched models channels, select, sync and timers faithfully (virtual time: a timer never fires before an earlier-deadline timer)")
		r.Assume("concurrent (overlapping) Update calls may linearize in either order")
		vexp.Explore(r, scs, vexp.Options{Bound: eng.Pick(r, 2, 3)})
	}, func(r *eng.Run, raw json.RawMessage) { vexp.Replay(r, scenarios(r), raw) })
}
