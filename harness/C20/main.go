//go:build verif

package main

import (
	"context"
	"encoding/json"
	"fmt"
	"io"
	"os"
	"regexp"
	"sort"
	"strings"
	"time"

	chunker "github.com/ipfs/boxo/chunker"
	dag "github.com/ipfs/boxo/ipld/merkledag"
	mdtest "github.com/ipfs/boxo/ipld/merkledag/test"
	ft "github.com/ipfs/boxo/ipld/unixfs"
	uio "github.com/ipfs/boxo/ipld/unixfs/io"
	"github.com/ipfs/boxo/mfs"
	"github.com/ipfs/boxo/verifshim/eng"
	"github.com/ipfs/boxo/verifshim/vexp"
	"github.com/ipfs/boxo/verifshim/vsched"
	cid "github.com/ipfs/go-cid"
	ipld "github.com/ipfs/go-ipld-format"
)

// ---------------------------------------------------------------------------
// scenario description

const (
	regLen   = 4
	nRegions = 2
	initial  = "aaaabbbb" // region 0 = "aaaa", region 1 = "bbbb"
)

var mtimes = []time.Time{time.Unix(1000000000, 0), time.Unix(1500000000, 0)}

// call is one scripted API call (or a short open..close compound) on /d/f or /d.
type call struct {
	op   string
	reg  int         // write ops: region 0/1, -1 = whole file
	mode os.FileMode // setmode/chmod/dchmod
	ts   int         // setmtime/touch: index into mtimes
	path string      // flushpath
}

type script struct {
	name    string
	threads [][]call
	pub     bool // root has a recording publish function (a republisher thread exists)
	chunk4  bool // 4-byte chunker: the file consists of two leaf blocks under a root node
	sub     bool // /d holds a cached sub-directory /d/sub instead of the file (directory metadata scenarios; no file, no final read-back)
	shared  bool // one read-write descriptor is opened during setup and used by all threads (swrite/sflush/sclose), closed in the final phase
	tree    bool // initial content written through a descriptor (DagModifier decides the shape) instead of PutNode of a single inline-data node
	delta   int  // BoundDelta (quick and thorough)
	thDelta int  // if non-zero: BoundDelta in the thorough tier instead of delta
	thOnly  bool // thorough tier only
	small   bool // two-thread scenario small enough to be explored without a bound in thorough
}

func w(op string, reg int) call        { return call{op: op, reg: reg} }
func c(op string) call                 { return call{op: op} }
func cm(op string, m os.FileMode) call { return call{op: op, mode: m} }
func ct(op string, ts int) call        { return call{op: op, ts: ts} }
func cp(op string, p string) call      { return call{op: op, path: p} }
func wp(op string, reg int) call       { return call{op: op, reg: reg, path: "/d/f"} } // path-based write: Lookup first
func isWrite(op string) bool {
	return op == "write" || op == "writens" || op == "wflush" || op == "swrite"
}
func letter(thr, idx int) byte { return byte('A' + thr*3 + idx) }
func (cl call) data(thr, idx int) string {
	n := regLen
	if cl.reg < 0 {
		n = regLen * nRegions
	}
	return strings.Repeat(string(letter(thr, idx)), n)
}

// ---------------------------------------------------------------------------
// one execution

type ev struct {
	kind string // start | ack | ret
	thr  int    // driver thread index; -1 = final phase (main thread)
	idx  int
	op   string
	res  string // rendered result (ret)
	data string // content observed (ret of read-like calls)
	has  bool   // data is meaningful
	err  string
}

type exec struct {
	sc       *script
	log      []ev
	infl     map[int]string // thread -> call in flight
	ctx      context.Context
	dserv    ipld.DAGService
	rt       *mfs.Root
	d        *mfs.Directory
	fi       *mfs.File
	subd     *mfs.Directory
	sfd      mfs.FileDescriptor
	pubs     []cid.Cid
	setupErr string
}

func (x *exec) rec(e ev) int {
	x.log = append(x.log, e)
	switch e.kind {
	case "start":
		x.infl[e.thr] = e.op
	case "ret":
		delete(x.infl, e.thr)
	}
	return len(x.log) - 1
}

func errStr(err error) string {
	if err == nil {
		return ""
	}
	return err.Error()
}

func (x *exec) setup() error {
	x.ctx = context.Background()
	x.dserv = mdtest.Mock()
	var pf mfs.PubFunc
	if x.sc.pub {
		pf = func(ctx context.Context, c cid.Cid) error {
			x.pubs = append(x.pubs, c)
			return nil
		}
	}
	var opts []mfs.Option
	if x.sc.chunk4 {
		opts = append(opts, mfs.WithChunker(chunker.SizeSplitterGen(regLen)))
	}
	rt, err := mfs.NewEmptyRoot(x.ctx, x.dserv, pf, nil, opts...)
	if err != nil {
		return err
	}
	x.rt = rt
	if err := mfs.Mkdir(rt, "/d", mfs.MkdirOpts{}); err != nil {
		return err
	}
	if x.sc.sub {
		if err := mfs.Mkdir(rt, "/d/sub", mfs.MkdirOpts{}); err != nil {
			return err
		}
		dn, err := mfs.Lookup(rt, "/d")
		if err != nil {
			return err
		}
		x.d = dn.(*mfs.Directory)
		sn, err := mfs.Lookup(rt, "/d/sub")
		if err != nil {
			return err
		}
		x.subd = sn.(*mfs.Directory)
		return nil
	}
	viaFd := x.sc.tree || x.sc.chunk4
	first := dag.NodeWithData(ft.FilePBData([]byte(initial), uint64(len(initial))))
	if viaFd {
		first = dag.NodeWithData(ft.FilePBData(nil, 0))
	}
	if err := mfs.PutNode(rt, "/d/f", first); err != nil {
		return err
	}
	dn, err := mfs.Lookup(rt, "/d")
	if err != nil {
		return err
	}
	x.d = dn.(*mfs.Directory)
	fn, err := mfs.Lookup(rt, "/d/f")
	if err != nil {
		return err
	}
	x.fi = fn.(*mfs.File)
	if viaFd {
		fd, err := x.fi.Open(x.ctx, mfs.Flags{Write: true, Sync: !x.sc.pub})
		if err != nil {
			return err
		}
		if _, err := fd.Write([]byte(initial)); err != nil {
			return err
		}
		if err := fd.Close(); err != nil {
			return err
		}
	}
	if !x.sc.pub { // (with a publisher this would wake the republisher during setup)
		if err := x.fi.SetMode(0o600); err != nil {
			return err
		}
	}
	if x.sc.shared {
		if x.sfd, err = x.fi.Open(x.ctx, mfs.Flags{Read: true, Write: true, Sync: true}); err != nil {
			return err
		}
	}
	if os.Getenv("VERIF_C20_SHAPE") != "" {
		nd, _ := x.fi.GetNode()
		fmt.Fprintf(os.Stderr, "shape of /d/f in %s: %T links=%d\n", x.sc.name, nd, len(nd.Links()))
	}
	return nil
}

func (x *exec) Main() {
	x.infl = map[int]string{}
	if err := x.setup(); err != nil {
		x.setupErr = err.Error()
		return
	}
	done := make([]chan struct{}, len(x.sc.threads))
	for t := range x.sc.threads {
		done[t] = vsched.Reg(make(chan struct{}))
	}
	for t, calls := range x.sc.threads {
		t, calls := t, calls
		vsched.GoNamed(fmt.Sprintf("t%d", t), true, func() {
			for i, cl := range calls {
				x.do(t, i, cl)
			}
			vsched.Close(done[t])
		})
	}
	// Wait without offering the main thread as a scheduling alternative: WaitIdle returns when every other
	// thread is finished or blocked; the receives then either succeed at once or (deadlock among the drivers,
	// or drivers waiting for a timer) block.
	vsched.WaitIdle()
	for t := range done {
		vsched.Recv((<-chan struct{})(done[t]))
	}
	// final phase: every driver thread has finished
	if x.sc.sub {
		// no file in these scenarios: a root flush walks / -> /d -> /d/sub and shows a leaked directory lock as a deadlock
		x.rec(ev{kind: "start", thr: -1, idx: 0, op: "final-rootflush"})
		err := x.rt.Flush()
		x.rec(ev{kind: "ret", thr: -1, idx: 0, op: "final-rootflush", err: errStr(err)})
		return
	}
	if x.sfd != nil {
		x.rec(ev{kind: "start", thr: -1, idx: 2, op: "sclose"})
		err := x.sfd.Close()
		if err == mfs.ErrClosed {
			err = nil // a driver thread closed it already
			x.rec(ev{kind: "ret", thr: -1, idx: 2, op: "sclose", err: "already-closed"})
		} else {
			x.rec(ev{kind: "ret", thr: -1, idx: 2, op: "sclose", err: errStr(err)})
		}
	}
	x.rec(ev{kind: "start", thr: -1, idx: 0, op: "final-live"})
	s, err := x.readPath(x.finalName())
	x.rec(ev{kind: "ret", thr: -1, idx: 0, op: "final-live", data: s, has: err == nil, err: errStr(err)})
	x.rec(ev{kind: "start", thr: -1, idx: 1, op: "final-dag"})
	s, err = x.flushedRootContent()
	x.rec(ev{kind: "ret", thr: -1, idx: 1, op: "final-dag", data: s, has: err == nil, err: errStr(err)})
}

// finalName is where the file must be at the end: g after a successful Mv, else f.
func (x *exec) finalName() string {
	for _, e := range x.log {
		if e.kind == "ret" && e.op == "mv" && e.err == "" {
			return "g"
		}
	}
	return "f"
}

func readAll(fd mfs.FileDescriptor) (string, error) {
	var out []byte
	buf := make([]byte, 64)
	for i := 0; i < 8; i++ {
		n, err := fd.Read(buf)
		out = append(out, buf[:n]...)
		if err == io.EOF {
			return string(out), nil
		}
		if err != nil {
			return string(out), err
		}
		if n == 0 {
			return string(out), nil
		}
	}
	return string(out), fmt.Errorf("read did not reach EOF")
}

func (x *exec) readFile(fi *mfs.File) (string, error) {
	fd, err := fi.Open(x.ctx, mfs.Flags{Read: true})
	if err != nil {
		return "", fmt.Errorf("open: %w", err)
	}
	s, err := readAll(fd)
	if cerr := fd.Close(); err == nil && cerr != nil {
		err = fmt.Errorf("close: %w", cerr)
	}
	return s, err
}

func (x *exec) readPath(name string) (string, error) {
	n, err := mfs.Lookup(x.rt, "/d/"+name)
	if err != nil {
		return "", fmt.Errorf("lookup /d/%s: %w", name, err)
	}
	fi, ok := n.(*mfs.File)
	if !ok {
		return "", fmt.Errorf("/d/%s is not a file", name)
	}
	return x.readFile(fi)
}

// dagFile reads names... below the directory node nd with the UnixFS readers only.
func (x *exec) dagFile(nd ipld.Node, names ...string) (string, error) {
	cur := nd
	for _, nm := range names {
		dir, err := uio.NewDirectoryFromNode(x.dserv, cur)
		if err != nil {
			return "", fmt.Errorf("dag: %s: %w", nm, err)
		}
		cur, err = dir.Find(x.ctx, nm)
		if err != nil {
			return "", fmt.Errorf("dag: find %s: %w", nm, err)
		}
	}
	dr, err := uio.NewDagReader(x.ctx, cur, x.dserv)
	if err != nil {
		return "", fmt.Errorf("dag: reader: %w", err)
	}
	b, err := io.ReadAll(dr)
	return string(b), err
}

func (x *exec) flushedRootContent() (string, error) {
	if err := x.rt.Flush(); err != nil {
		return "", fmt.Errorf("root flush: %w", err)
	}
	nd, err := x.rt.GetDirectory().GetNode()
	if err != nil {
		return "", err
	}
	return x.dagFile(nd, "d", x.finalName())
}

// target is the File a call works on: the handle resolved during setup, or (path-based calls) a fresh Lookup.
func (x *exec) target(cl call) (*mfs.File, error) {
	if cl.path == "" {
		return x.fi, nil
	}
	n, err := mfs.Lookup(x.rt, cl.path)
	if err != nil {
		return nil, fmt.Errorf("lookup: %w", err)
	}
	fi, ok := n.(*mfs.File)
	if !ok {
		return nil, fmt.Errorf("%s is not a file", cl.path)
	}
	return fi, nil
}

func (x *exec) writeCall(t, i int, cl call) (acked bool, err error) {
	fi, err := x.target(cl)
	if err != nil {
		return false, err
	}
	fd, err := fi.Open(x.ctx, mfs.Flags{Write: true, Sync: cl.op != "writens"})
	if err != nil {
		return false, fmt.Errorf("open: %w", err)
	}
	off := int64(0)
	if cl.reg > 0 {
		off = int64(cl.reg * regLen)
	}
	if _, err := fd.WriteAt([]byte(cl.data(t, i)), off); err != nil {
		fd.Close()
		return false, fmt.Errorf("writeat: %w", err)
	}
	if cl.op == "wflush" {
		if err := fd.Flush(); err != nil {
			fd.Close()
			return false, fmt.Errorf("flush: %w", err)
		}
		x.rec(ev{kind: "ack", thr: t, idx: i, op: cl.op})
		acked = true
	}
	if err := fd.Close(); err != nil {
		return acked, fmt.Errorf("close: %w", err)
	}
	if !acked {
		x.rec(ev{kind: "ack", thr: t, idx: i, op: cl.op})
	}
	return true, nil
}

func (x *exec) do(t, i int, cl call) {
	x.rec(ev{kind: "start", thr: t, idx: i, op: cl.op})
	r := ev{kind: "ret", thr: t, idx: i, op: cl.op}
	var err error
	switch cl.op {
	case "mode":
		var m os.FileMode
		m, err = x.fi.Mode()
		r.res = fmt.Sprintf("%o", m)
	case "setmode":
		err = x.fi.SetMode(cl.mode)
	case "modtime":
		var ts time.Time
		ts, err = x.fi.ModTime()
		r.res = fmt.Sprint(ts.Unix())
	case "setmtime":
		err = x.fi.SetModTime(mtimes[cl.ts])
	case "chmod":
		err = mfs.Chmod(x.rt, "/d/f", cl.mode)
	case "touch":
		err = mfs.Touch(x.rt, "/d/f", mtimes[cl.ts])
	case "dchmod":
		err = mfs.Chmod(x.rt, "/d", cl.mode)
	case "lookup":
		var n mfs.FSNode
		n, err = mfs.Lookup(x.rt, "/d/f")
		if err == nil {
			r.res = fmt.Sprint(n.Type())
		}
	case "write", "writens", "wflush":
		_, err = x.writeCall(t, i, cl)
	case "swrite":
		off := int64(0)
		if cl.reg > 0 {
			off = int64(cl.reg * regLen)
		}
		_, err = x.sfd.WriteAt([]byte(cl.data(t, i)), off)
	case "sflush":
		err = x.sfd.Flush()
	case "sclose":
		err = x.sfd.Close()
	case "read":
		var fi *mfs.File
		if fi, err = x.target(cl); err == nil {
			r.data, err = x.readFile(fi)
		}
		r.has = err == nil
	case "list":
		var names []string
		err = x.d.ForEachEntry(x.ctx, func(nl mfs.NodeListing) error {
			names = append(names, fmt.Sprintf("%s/%d", nl.Name, nl.Size))
			return nil
		})
		sort.Strings(names)
		r.res = strings.Join(names, ",")
	case "names":
		var names []string
		names, err = x.d.ListNames(x.ctx)
		sort.Strings(names)
		r.res = strings.Join(names, ",")
	case "rootflush":
		err = x.rt.Flush()
	case "dflush":
		err = x.d.Flush()
	case "schmod":
		err = mfs.Chmod(x.rt, "/d/sub", cl.mode)
	case "stouch":
		err = mfs.Touch(x.rt, "/d/sub", mtimes[cl.ts])
	case "ssetmode":
		err = x.subd.SetMode(cl.mode)
	case "ssetmtime":
		err = x.subd.SetModTime(mtimes[cl.ts])
	case "dgetnode":
		_, err = x.d.GetNode()
	case "dlist":
		var nls []mfs.NodeListing
		nls, err = x.d.List(x.ctx)
		var names []string
		for _, nl := range nls {
			names = append(names, fmt.Sprintf("%s/%d", nl.Name, nl.Size))
		}
		sort.Strings(names)
		r.res = strings.Join(names, ",")
	case "fflush":
		err = x.fi.Flush()
	case "fsync":
		err = x.fi.Sync()
	case "flushpath":
		var nd ipld.Node
		nd, err = mfs.FlushPath(x.ctx, x.rt, cl.path)
		if err == nil && !x.sc.sub {
			switch cl.path {
			case "/":
				r.data, err = x.dagFile(nd, "d", "f")
			case "/d":
				r.data, err = x.dagFile(nd, "f")
			default:
				r.data, err = x.dagFile(nd)
			}
			r.has = err == nil
		}
	case "mv":
		err = mfs.Mv(x.rt, "/d/f", "/d/g")
	default:
		panic("unknown op " + cl.op)
	}
	r.err = errStr(err)
	x.rec(r)
}

func (x *exec) AtEnd(*vsched.Result) {}

func (x *exec) Outcome() string {
	var sb strings.Builder
	if x.setupErr != "" {
		return "setup-error:" + x.setupErr
	}
	// per-thread results in program order (independent of interleaving), then the final observations
	var rets []ev
	for _, e := range x.log {
		if e.kind == "ret" {
			rets = append(rets, e)
		}
	}
	sort.SliceStable(rets, func(a, b int) bool {
		ta, tb := rets[a].thr, rets[b].thr
		if ta < 0 {
			ta = 99
		}
		if tb < 0 {
			tb = 99
		}
		if ta != tb {
			return ta < tb
		}
		return rets[a].idx < rets[b].idx
	})
	for _, e := range rets {
		fmt.Fprintf(&sb, "%d.%d %s=%s%s", e.thr, e.idx, e.op, e.res, e.data)
		if e.err != "" {
			fmt.Fprintf(&sb, "!%s", e.err)
		}
		sb.WriteString("; ")
	}
	return sb.String()
}

// ---------------------------------------------------------------------------
// oracle

type wr struct {
	thr, idx   int
	op         string
	reg        int
	data       string // bytes written to each covered region (regLen letters)
	start, end int    // log positions: call start; ack position (acked) or return position (not acked), big if neither
	ret        int    // swrite: position of its successful return (-1 = none)
	acked      bool
}

func (x *exec) writes() []wr {
	var ws []wr
	const inf = 1 << 30
	flushStart := map[[2]int]int{}
	for p, e := range x.log {
		if e.op == "sflush" || e.op == "sclose" {
			// a successful Flush/Close of the shared descriptor acknowledges every write on it that had returned before the call started
			k := [2]int{e.thr, e.idx}
			if e.kind == "start" {
				flushStart[k] = p
			} else if e.kind == "ret" && e.err == "" {
				for j := range ws {
					if ws[j].op == "swrite" && !ws[j].acked && ws[j].ret >= 0 && ws[j].ret < flushStart[k] {
						ws[j].acked, ws[j].end = true, p
					}
				}
			}
			continue
		}
		if !isWrite(e.op) {
			continue
		}
		switch e.kind {
		case "start":
			cl := x.sc.threads[e.thr][e.idx]
			ws = append(ws, wr{thr: e.thr, idx: e.idx, op: e.op, reg: cl.reg, data: strings.Repeat(string(letter(e.thr, e.idx)), regLen), start: p, end: inf, ret: -1})
		case "ack", "ret":
			for j := range ws {
				if ws[j].thr != e.thr || ws[j].idx != e.idx {
					continue
				}
				if e.op == "swrite" {
					if e.err == "" {
						ws[j].ret = p
					} else {
						ws[j].end = p // failed: never acknowledged
					}
				} else if ws[j].end == inf {
					ws[j].end = p
					ws[j].acked = e.kind == "ack"
				}
			}
		}
	}
	for j := range ws {
		if ws[j].end == inf && ws[j].ret >= 0 {
			ws[j].end = ws[j].ret
		}
	}
	return ws
}

func (w wr) covers(r int) bool { return w.reg < 0 || w.reg == r }

// overlapping lists the operations of other threads that were in flight at some time between log positions a and b.
func (x *exec) overlapping(thr, a, b int) string {
	set := map[string]bool{}
	open := map[[2]int]int{}
	for p, e := range x.log {
		k := [2]int{e.thr, e.idx}
		if e.kind == "start" {
			open[k] = p
		}
		if e.kind == "ret" {
			s := open[k]
			if e.thr != thr && e.thr >= 0 && s < b && p > a {
				set[e.op] = true
			}
			delete(open, k)
		}
	}
	for k, s := range open {
		if k[0] != thr && k[0] >= 0 && s < b {
			set[x.sc.threads[k[0]][k[1]].op] = true
		}
	}
	var l []string
	for o := range set {
		l = append(l, o)
	}
	sort.Strings(l)
	return strings.Join(l, ",")
}

func (x *exec) Check(res *vsched.Result) *eng.Violation {
	if x.setupErr != "" {
		return eng.V("setup-error", "setup", x.setupErr)
	}
	if x.sc.sub {
		return nil // no file in the sub-directory scenarios: only the scheduler verdict (deadlock) is judged
	}
	ws := x.writes()
	logStr := x.logString()
	hasMv := false
	for _, th := range x.sc.threads {
		for _, cl := range th {
			if cl.op == "mv" {
				hasMv = true
			}
		}
	}
	starts := map[[2]int]int{}
	for p, e := range x.log {
		if e.kind == "start" {
			starts[[2]int{e.thr, e.idx}] = p
			continue
		}
		if e.kind != "ret" {
			continue
		}
		readLike := e.op == "read" || e.op == "flushpath" || e.op == "final-live" || e.op == "final-dag"
		if !readLike {
			continue
		}
		s := starts[[2]int{e.thr, e.idx}]
		if !e.has {
			// a read that fails does not show the data. Path-based calls racing with Mv may legitimately miss the file.
			if hasMv && e.thr >= 0 && x.sc.threads[e.thr][e.idx].path != "" {
				continue
			}
			return eng.V("read-failed", e.op, fmt.Sprintf("%s failed: %s\n%s", e.op, e.err, logStr), "overlap", x.overlapping(e.thr, s, p))
		}
		if len(e.data) != regLen*nRegions {
			return eng.V("content-corrupt", e.op, fmt.Sprintf("%s observed %q: wrong length\n%s", e.op, e.data, logStr), "overlap", x.overlapping(e.thr, s, p))
		}
		for r := 0; r < nRegions; r++ {
			got := e.data[r*regLen : (r+1)*regLen]
			// superseded(end): an acknowledged write to this region started after position `end` and was acknowledged before this observation started
			superseding := func(end int) *wr {
				for j := range ws {
					w2 := &ws[j]
					if w2.covers(r) && w2.acked && w2.start > end && w2.end < s {
						return w2
					}
				}
				return nil
			}
			ok := false
			var lost *wr
			known := false
			if got == initial[r*regLen:(r+1)*regLen] {
				known = true
				if l := superseding(-1); l == nil {
					ok = true
				} else {
					lost = l
				}
			}
			for j := range ws {
				w1 := &ws[j]
				if !w1.covers(r) || w1.data != got {
					continue
				}
				known = true
				if w1.start > p {
					continue // written after the observation returned: cannot be its source
				}
				if l := superseding(w1.end); l == nil {
					ok = true
				} else {
					lost = l
				}
			}
			if ok {
				continue
			}
			if !known || lost == nil {
				return eng.V("content-corrupt", e.op, fmt.Sprintf("%s observed %q: region %d holds bytes nobody could have written there at that time\n%s", e.op, e.data, r, logStr), "overlap", x.overlapping(e.thr, s, p))
			}
			// defect-class features: which kinds of calls of other threads overlapped the lost write (between its
			// start and its acknowledgement)
			ov := "," + x.overlapping(lost.thr, lost.start, lost.end) + ","
			has := func(ops ...string) string {
				for _, o := range ops {
					if strings.Contains(ov, ","+o+",") {
						return "true"
					}
				}
				return "false"
			}
			return eng.V("acked-write-lost", e.op,
				fmt.Sprintf("%s observed %q: region %d shows %q although write %d.%d (%s %q) was acknowledged (Flush/Close returned nil) before this observation started and after the observed data had been written\n%s",
					e.op, e.data, r, got, lost.thr, lost.idx, lost.op, lost.data, logStr),
				"write_sync", fmt.Sprint(lost.op != "writens"),
				"file_meta_update_overlaps", has("setmode", "setmtime", "chmod", "touch"),
				"mv_overlaps", has("mv"),
				"dir_flush_overlaps", has("dflush"),
				"dir_meta_update_overlaps", has("dchmod"),
				"other_writer_overlaps", has("write", "writens", "wflush", "fflush", "swrite"),
				"overlapping_calls", strings.Trim(ov, ","))
		}
	}
	return nil
}

var blockedRe = regexp.MustCompile(`^T\d+\((t\d+|main)\) blocked on (.+)$`)

// Classify adds defect-class features to verdict violations produced by the explorer (deadlock etc.):
// which call each blocked driver thread was in and what primitive it waits for.
func (x *exec) Classify(res *vsched.Result, v *eng.Violation) {
	if v.Symptom != "deadlock" {
		return
	}
	var rl, wl, other []string
	for _, b := range res.Blocked {
		m := blockedRe.FindStringSubmatch(b)
		if m == nil {
			continue
		}
		thr := -1
		if m[1] != "main" {
			fmt.Sscanf(m[1], "t%d", &thr)
		}
		op, ok := x.infl[thr]
		if !ok {
			continue // main waiting for the drivers
		}
		switch m[2] {
		case "RWMutex.RLock":
			rl = append(rl, op)
		case "RWMutex.Lock":
			wl = append(wl, op)
		default:
			other = append(other, op+":"+m[2])
		}
	}
	sort.Strings(rl)
	sort.Strings(wl)
	sort.Strings(other)
	if v.Features == nil {
		v.Features = map[string]string{}
	}
	// calls blocked in RWMutex.RLock / RWMutex.Lock / anything else when the deadlock was declared
	v.Features["rlock_waiters"] = strings.Join(rl, ",")
	v.Features["wlock_waiters"] = strings.Join(wl, ",")
	v.Features["other_waiters"] = strings.Join(other, ",")
	v.Detail += "\n" + x.logString()
}

func (x *exec) logString() string {
	var sb strings.Builder
	for i, e := range x.log {
		fmt.Fprintf(&sb, "  %2d t%d.%d %-5s %s %s%s", i, e.thr, e.idx, e.kind, e.op, e.res, e.data)
		if e.err != "" {
			fmt.Fprintf(&sb, " ERR %s", e.err)
		}
		sb.WriteString("\n")
	}
	return sb.String()
}

// ---------------------------------------------------------------------------
// scenarios

func scripts() []*script {
	return []*script{
		// S1/S2: stat while another thread changes the metadata or flushes a write
		{name: "s1-mode-setmode", small: true, threads: [][]call{{c("mode")}, {cm("setmode", 0o644)}}},
		{name: "s1-mode-write", small: true, threads: [][]call{{c("mode")}, {w("write", 0)}}},
		{name: "s2-modtime-setmtime", small: true, threads: [][]call{{c("modtime")}, {ct("setmtime", 1)}}},
		{name: "s2-modtime-touch-chmod", threads: [][]call{{c("modtime")}, {ct("touch", 1)}, {cm("chmod", 0o644)}}},
		// S3: open-write-close || ForEachEntry on the parent || root flush / FlushPath
		{name: "s3-write-list-rootflush", threads: [][]call{{w("write", 0)}, {c("list")}, {c("rootflush")}}},
		// S4: descriptors
		{name: "s4-read-write-fsync", threads: [][]call{{c("read")}, {w("write", -1)}, {c("fsync")}}},
		{name: "s4-two-writers-disjoint", threads: [][]call{{w("write", 0), c("read")}, {w("write", 1), c("read")}}},
		{name: "s4-two-writers-disjoint-chunk4", chunk4: true, threads: [][]call{{wp("wflush", 0)}, {wp("write", 1)}}},
		{name: "s4-wflush-read-write", threads: [][]call{{w("wflush", 0), c("read")}, {w("write", -1)}}},
		{name: "s4-fflush-write-read", threads: [][]call{{c("fflush")}, {w("write", 1)}, {c("read")}}},
		{name: "s4-writens-rootflush-read", threads: [][]call{{w("writens", 0)}, {c("rootflush")}, {c("read")}}},
		{name: "s4-pwrite-pread-tree", tree: true, threads: [][]call{{wp("write", 0), wp("writens", 1)}, {cp("read", "/d/f"), cp("read", "/d/f")}}},
		{name: "s4-shared-fd", shared: true, threads: [][]call{{w("swrite", 0), w("swrite", 1)}, {c("sflush")}, {c("sclose")}}},
		{name: "s4-shared-fd-flush-fsync", shared: true, small: true, threads: [][]call{{w("swrite", 0), c("sflush"), w("swrite", -1)}, {c("sflush"), c("rootflush")}}},
		// S5: write+Flush || Mv || ListNames
		{name: "s5-pwflush-mv-names", threads: [][]call{{wp("wflush", 0)}, {c("mv")}, {c("names")}}},
		{name: "s5-pwrite-mv", threads: [][]call{{wp("write", -1)}, {c("mv")}}},
		// S6: path-based metadata calls
		{name: "s6-chmod-touch-lookup", threads: [][]call{{cm("chmod", 0o644)}, {ct("touch", 0)}, {c("lookup")}}},
		// S9: metadata update of the (cached) file || listing / node / flush of its parent directory (file node lock vs directory lock)
		{name: "s9-chmod-names", small: true, threads: [][]call{{cm("chmod", 0o644)}, {c("names")}}},
		{name: "s9-chmod-foreachentry", small: true, threads: [][]call{{cm("chmod", 0o644)}, {c("list")}}},
		{name: "s9-touch-dlist", small: true, threads: [][]call{{ct("touch", 1)}, {c("dlist")}}},
		{name: "s9-setmode-dgetnode", small: true, threads: [][]call{{cm("setmode", 0o644)}, {c("dgetnode")}}},
		{name: "s9-setmtime-dflush", small: true, threads: [][]call{{ct("setmtime", 1)}, {c("dflush")}}},
		{name: "s9-touch-flushpath-dir", small: true, threads: [][]call{{ct("touch", 0)}, {cp("flushpath", "/d")}}},
		{name: "s9-setmode-rootflush", small: true, threads: [][]call{{cm("setmode", 0o644)}, {c("rootflush")}}},
		{name: "s9-chmod-list-dflush", threads: [][]call{{cm("chmod", 0o644), ct("touch", 1)}, {c("list")}, {c("dflush")}}},
		// S10: metadata update of a cached sub-directory /d/sub || node / flush / listing of its parent /d (child directory lock vs parent directory lock)
		{name: "s10-ssetmode-dgetnode", sub: true, small: true, threads: [][]call{{cm("ssetmode", 0o750)}, {c("dgetnode")}}},
		{name: "s10-ssetmtime-dflush", sub: true, small: true, threads: [][]call{{ct("ssetmtime", 1)}, {c("dflush")}}},
		{name: "s10-schmod-foreachentry", sub: true, small: true, threads: [][]call{{cm("schmod", 0o750)}, {c("list")}}},
		{name: "s10-stouch-dlist", sub: true, small: true, threads: [][]call{{ct("stouch", 1)}, {c("dlist")}}},
		{name: "s10-schmod-flushpath-dir", sub: true, small: true, threads: [][]call{{cm("schmod", 0o750)}, {cp("flushpath", "/d")}}},
		{name: "s10-stouch-rootflush", sub: true, small: true, threads: [][]call{{ct("stouch", 0)}, {c("rootflush")}}},
		{name: "s10-schmod-stouch-dgetnode", sub: true, threads: [][]call{{cm("schmod", 0o750)}, {ct("stouch", 1)}, {c("dgetnode")}}},
		// S7: metadata update || data write on the same file (setNodeData builds the new node from a stale one)
		{name: "s7-setmode-write", small: true, threads: [][]call{{cm("setmode", 0o644)}, {w("write", 0)}}},
		{name: "s7-setmode-write-tree", small: true, tree: true, threads: [][]call{{cm("setmode", 0o644)}, {w("write", 0)}}},
		{name: "s7-touch-wflush-chunk4", chunk4: true, threads: [][]call{{ct("touch", 1)}, {w("wflush", 1)}}},
		// S8: parent directory: metadata update / flush (drops the directory's entry cache) || write below it
		{name: "s8-dchmod-write", small: true, threads: [][]call{{cm("dchmod", 0o755)}, {w("write", 0)}}},
		{name: "s8-dflush-pwrite-read", threads: [][]call{{c("dflush")}, {wp("write", 0)}, {cp("read", "/d/f")}}},
		{name: "s8-dflush-pwritens", threads: [][]call{{c("dflush")}, {wp("writens", 0), cp("read", "/d/f")}}},
		// S3 with a publish function: a republisher thread and its timers take part (expensive: every armed timer is an alternative at every point)
		{name: "s3-pwrite-flushpath-root-pub", pub: true, delta: -1, threads: [][]call{{wp("write", 0)}, {cp("flushpath", "/")}}},
		{name: "s3-pwrite-list-flushpath-pub", pub: true, delta: -1, thDelta: -2, threads: [][]call{{wp("write", 0)}, {c("list")}, {cp("flushpath", "/")}}},
		{name: "s3-write-flushpath-file-pub", pub: true, delta: -1, threads: [][]call{{w("write", 0)}, {cp("flushpath", "/d/f")}}},
		// thorough only: longer scripts / more threads
		{name: "t-write2-list-rootflush-read", thOnly: true, threads: [][]call{{w("write", 0), w("wflush", 1)}, {c("list"), c("names")}, {c("rootflush"), c("read")}}},
		{name: "t-three-writers", thOnly: true, threads: [][]call{{wp("write", 0), cp("read", "/d/f")}, {wp("writens", 1)}, {wp("wflush", -1)}}},
		{name: "t-four-threads", thOnly: true, delta: -1, threads: [][]call{{w("write", -1)}, {c("read")}, {c("list")}, {c("fsync"), c("fflush")}}},
		{name: "t-lookup-chmod-dir-write-chunk4", thOnly: true, chunk4: true, threads: [][]call{{c("lookup"), cm("dchmod", 0o700)}, {wp("write", 0)}, {c("fflush"), cp("read", "/d/f")}}},
	}
}

func scenarios(r *eng.Run) []*vexp.Scenario {
	var out []*vexp.Scenario
	thorough := r != nil && r.Thorough()
	for _, s := range scripts() {
		s := s
		if s.thOnly && r != nil && !thorough {
			continue // (worker processes, r == nil, know every scenario)
		}
		delta := s.delta
		if thorough && s.thDelta != 0 {
			delta = s.thDelta
		}
		if s.small && thorough {
			delta = 1 // one more preemption than the base bound (lock releases are scheduling points now: unbounded is out of reach)
		}
		out = append(out, &vexp.Scenario{
			Name: s.name, BoundDelta: delta,
			Cfg: vsched.Config{MaxSteps: 20000, MaxIdleFires: 12, SelectCost: 1},
			New: func() vexp.Exec { return &exec{sc: s} },
		})
	}
	return out
}

func main() {
	var scs []*vexp.Scenario
	eng.WorkerMain = func() { vexp.Register(scenarios(nil)...); eng.WorkerMain() }
	eng.Main("C20", "model_checking", func(r *eng.Run) {
		scs = scenarios(r)
		r.Rule("every schedule (thread interleaving at lock/atomic/channel operations, timer firing order) of each scenario with at most B deviations (preemptions) from the default run-to-completion schedule; a case is non-trivial when it has >= 1 deviation; each execution is a distinct choice sequence run on the rewritten real mfs package")
		r.Assume("vsched models sync.Mutex/RWMutex (writer preference), atomics, channels and timers faithfully")
		r.Assume("overlapping calls may linearize in either order; a write is acknowledged when Flush or Close returned nil")
		r.Assume("DAG service, DagModifier and UnixFS readers below mfs are synchronous and hold no lock across a scheduling point")
		vexp.Explore(r, scs, vexp.Options{Bound: eng.Pick(r, 2, 3)})
	}, func(r *eng.Run, raw json.RawMessage) { vexp.Replay(r, scenarios(r), raw) })
}
