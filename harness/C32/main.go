//go:build verif

package main

import (
	"context"
	"encoding/json"
	"errors"
	"fmt"
	"io"
	"net/http"
	"net/http/httptest"
	"net/url"
	"strings"
	"time"

	"github.com/ipfs/boxo/files"
	"github.com/ipfs/boxo/gateway"
	"github.com/ipfs/boxo/path"
	"github.com/ipfs/boxo/verifshim/eng"
	cid "github.com/ipfs/go-cid"
	"github.com/libp2p/go-libp2p/core/peer"
	mbase "github.com/multiformats/go-multibase"
	mh "github.com/multiformats/go-multihash"
)

func must(err error) {
	if err != nil {
		panic(err)
	}
}

// ---------------------------------------------------------------------------
// backend stub: only DNSLink records matter to the hostname handler

type stub struct{ records map[string]bool }

var errNo = errors.New("stub: not available")

func (s *stub) Get(context.Context, path.ImmutablePath, ...gateway.ByteRange) (gateway.ContentPathMetadata, *gateway.GetResponse, error) {
	return gateway.ContentPathMetadata{}, nil, errNo
}
func (s *stub) GetAll(context.Context, path.ImmutablePath) (gateway.ContentPathMetadata, files.Node, error) {
	return gateway.ContentPathMetadata{}, nil, errNo
}
func (s *stub) GetBlock(context.Context, path.ImmutablePath) (gateway.ContentPathMetadata, files.File, error) {
	return gateway.ContentPathMetadata{}, nil, errNo
}
func (s *stub) Head(context.Context, path.ImmutablePath) (gateway.ContentPathMetadata, *gateway.HeadResponse, error) {
	return gateway.ContentPathMetadata{}, nil, errNo
}
func (s *stub) ResolvePath(context.Context, path.ImmutablePath) (gateway.ContentPathMetadata, error) {
	return gateway.ContentPathMetadata{}, errNo
}
func (s *stub) GetCAR(context.Context, path.ImmutablePath, gateway.CarParams) (gateway.ContentPathMetadata, io.ReadCloser, error) {
	return gateway.ContentPathMetadata{}, nil, errNo
}
func (s *stub) IsCached(context.Context, path.Path) bool { return false }
func (s *stub) GetIPNSRecord(context.Context, cid.Cid) ([]byte, error) {
	return nil, errNo
}
func (s *stub) ResolveMutable(context.Context, path.Path) (path.ImmutablePath, time.Duration, time.Time, error) {
	return path.ImmutablePath{}, 0, time.Time{}, errNo
}
func (s *stub) GetDNSLinkRecord(_ context.Context, host string) (path.Path, error) {
	if s.records[host] {
		return path.NewPath("/ipfs/bafkqaaa")
	}
	return nil, errNo
}

// ---------------------------------------------------------------------------
// configurations

type gwConfig struct {
	Name      string
	GwHost    string // host to send path requests to / suffix of subdomain hosts
	Key       string // key in PublicGateways
	Subdomain bool
	Inline    bool
	NoDNSLink bool
}

var configs = []gwConfig{
	{Name: "subdomain", GwHost: "gw.example", Key: "gw.example", Subdomain: true},
	{Name: "subdomain-inline", GwHost: "gw.example", Key: "gw.example", Subdomain: true, Inline: true},
	{Name: "subdomain-port", GwHost: "gw.example:8080", Key: "gw.example", Subdomain: true},
	{Name: "wildcard", GwHost: "x1.wild.example", Key: "*.wild.example", Subdomain: true},
	{Name: "wildcard-inline-port", GwHost: "x1.wild.example:8443", Key: "*.wild.example", Subdomain: true, Inline: true},
	{Name: "localhost", GwHost: "localhost:8080", Key: "localhost", Subdomain: true, Inline: true},
	{Name: "path", GwHost: "path.example", Key: "path.example", Subdomain: false},
	{Name: "subdomain-nodnslink", GwHost: "gw.example", Key: "gw.example", Subdomain: true, NoDNSLink: true},
}

func (c gwConfig) handler(records map[string]bool, next http.Handler) http.Handler {
	cfg := gateway.Config{
		NoDNSLink: c.NoDNSLink,
		PublicGateways: map[string]*gateway.PublicGateway{
			c.Key: {Paths: []string{"/ipfs", "/ipns"}, UseSubdomains: c.Subdomain, InlineDNSLink: c.Inline, NoDNSLink: c.NoDNSLink},
		},
	}
	return gateway.NewHostnameHandler(cfg, &stub{records: records}, next)
}

// ---------------------------------------------------------------------------
// identifiers

type ident struct {
	Text string `json:"text"`
	Kind string `json:"kind"` // cid | peer | dnslink
	NS   string `json:"ns"`   // ipfs | ipns
	Desc string `json:"desc"`
	mhash mh.Multihash
}

func sum(data []byte, code uint64, l int) mh.Multihash {
	h, err := mh.Sum(data, code, l)
	must(err)
	return h
}

func identifiers(thorough bool) []ident {
	var out []ident
	hashes := []struct {
		n string
		h mh.Multihash
	}{
		{"sha2-256", sum([]byte("c32"), mh.SHA2_256, -1)},
		{"blake2b-256", sum([]byte("c32"), mh.BLAKE2B_MIN+31, -1)},
		{"sha2-512", sum([]byte("c32"), mh.SHA2_512, -1)},
		{"identity-2", sum([]byte("hi"), mh.IDENTITY, -1)},
		{"identity-33", sum([]byte("0123456789abcdef0123456789abcdef!"), mh.IDENTITY, -1)},
		{"sha2-256-trunc20", sum([]byte("c32"), mh.SHA2_256, 20)},
	}
	codecs := []struct {
		n string
		c uint64
	}{{"dag-pb", cid.DagProtobuf}, {"raw", cid.Raw}, {"dag-cbor", cid.DagCBOR}, {"libp2p-key", cid.Libp2pKey}}
	bases := []struct {
		n string
		b mbase.Encoding
	}{{"b32", mbase.Base32}, {"b36", mbase.Base36}, {"b58", mbase.Base58BTC}, {"b16", mbase.Base16}, {"b32upper", mbase.Base32Upper}}
	out = append(out, ident{Text: cid.NewCidV0(hashes[0].h).String(), Kind: "cid", NS: "ipfs", Desc: "v0", mhash: hashes[0].h})
	for _, h := range hashes {
		for _, c := range codecs {
			for _, b := range bases {
				if !thorough && (b.n == "b32upper" || (b.n == "b16" && c.n != "raw")) {
					continue
				}
				s, err := cid.NewCidV1(c.c, h.h).StringOfBase(b.b)
				must(err)
				out = append(out, ident{Text: s, Kind: "cid", NS: "ipfs", Desc: "v1/" + c.n + "/" + h.n + "/" + b.n, mhash: h.h})
			}
		}
	}
	// peer IDs: multihashes shaped like the four key types (ed25519 and secp256k1 inline their
	// protobuf-encoded public key with the identity hash, RSA and ECDSA keys are sha2-256 hashed)
	ed := append([]byte{0x08, 0x01, 0x12, 0x20}, []byte("0123456789abcdef0123456789abcdef")...)
	secp := append([]byte{0x08, 0x02, 0x12, 0x21, 0x02}, []byte("0123456789abcdef0123456789abcdef")...)
	peers := []struct {
		n string
		h mh.Multihash
	}{
		{"ed25519", sum(ed, mh.IDENTITY, -1)},
		{"secp256k1", sum(secp, mh.IDENTITY, -1)},
		{"rsa", sum([]byte("rsa public key"), mh.SHA2_256, -1)},
		{"ecdsa", sum([]byte("ecdsa public key"), mh.SHA2_256, -1)},
	}
	for _, p := range peers {
		pid := peer.ID(p.h)
		out = append(out, ident{Text: pid.String(), Kind: "peer", NS: "ipns", Desc: p.n + "/b58mh", mhash: p.h})
		for _, b := range bases[:3] {
			s, err := cid.NewCidV1(cid.Libp2pKey, p.h).StringOfBase(b.b)
			must(err)
			out = append(out, ident{Text: s, Kind: "peer", NS: "ipns", Desc: p.n + "/cidv1-libp2p-key/" + b.n, mhash: p.h})
		}
		// wrong multicodec, fixed on the fly by the gateway
		s, err := cid.NewCidV1(cid.DagProtobuf, p.h).StringOfBase(mbase.Base32)
		must(err)
		out = append(out, ident{Text: s, Kind: "peer", NS: "ipns", Desc: p.n + "/cidv1-dag-pb/b32", mhash: p.h})
	}
	return out
}

// validDNSName: non-empty labels of [a-z0-9-] that neither start nor end with '-', each <= 63, total <= 253
func validDNSName(s string) bool {
	if s == "" || len(s) > 253 {
		return false
	}
	for _, l := range strings.Split(s, ".") {
		if l == "" || len(l) > 63 || l[0] == '-' || l[len(l)-1] == '-' {
			return false
		}
	}
	return true
}

// allNames enumerates every valid DNS name over the alphabet up to length n.
func allNames(alpha string, n int) []string {
	var out []string
	var rec func(p []byte)
	rec = func(p []byte) {
		if len(p) > 0 && validDNSName(string(p)) {
			out = append(out, string(p))
		}
		if len(p) == n {
			return
		}
		for i := 0; i < len(alpha); i++ {
			rec(append(p, alpha[i]))
		}
	}
	rec(nil)
	return out
}

func boundaryNames() []string {
	var out []string
	// inlined length 62, 63, 64 (dots add nothing, hyphens add one)
	for _, total := range []int{62, 63, 64} {
		// "a…a.example.com" without hyphens
		out = append(out, strings.Repeat("a", total-len(".example.com"))+".example.com")
		// with 3 hyphens: inlined length = len + 3
		base := "my-v-long-" // 3 hyphens
		out = append(out, base+strings.Repeat("b", total-3-len(base)-len(".example.com"))+".example.com")
	}
	out = append(out, "example.com", "my.v-long.example.com", "xn--bcher-kva.example", "a--b.c-d.e", "en.wikipedia-on-ipfs.org",
		strings.Repeat("a", 63)+".example.com", strings.Repeat("a", 63)+"."+strings.Repeat("b", 63))
	return out
}

// ---------------------------------------------------------------------------
// one flow: request -> (redirects)* -> path seen by next

type flow struct {
	Cfg      int    `json:"cfg"`
	Mode     string `json:"mode"` // path | subdomain | dnslink
	Ident    ident  `json:"ident"`
	Label    string `json:"label,omitempty"` // subdomain mode: label(s) put in front of .<ns>.<gwhost>
	Rem      string `json:"rem"`             // decoded remainder ("" or starting with "/")
	Query    string `json:"query"`
	Fragment string `json:"fragment"`
	HTTPS    bool   `json:"https"`
	XFHost   bool   `json:"xfhost"`  // reverse proxy: Host is internal, X-Forwarded-Host carries the public host
	Records  string `json:"records"` // "self" | "none" | "self+alias"
	Port     bool   `json:"port,omitempty"` // dnslink mode: Host carries a port
}

type hop struct {
	status   int
	location string
}

type result struct {
	hops     []hop
	nextPath string // r.URL.Path seen by next ("" if never called)
	nextRaw  string // r.URL.EscapedPath()
	nextQ    string
	called   bool
	final    int
	loop     bool
}

const internalHost = "backend.internal:9000"

func (f flow) records() map[string]bool {
	m := map[string]bool{}
	if f.Ident.Kind != "dnslink" {
		return m
	}
	switch f.Records {
	case "self":
		m[f.Ident.Text] = true
	case "self+alias":
		m[f.Ident.Text] = true
		if l, err := gateway.InlineDNSLink(f.Ident.Text); err == nil {
			m[l] = true
		}
		m[gateway.UninlineDNSLink(f.Ident.Text)] = true
	}
	return m
}

func (f flow) firstURL() *url.URL {
	c := configs[f.Cfg]
	u := &url.URL{Scheme: "http", RawQuery: f.Query}
	switch f.Mode {
	case "path":
		u.Host = c.GwHost
		u.Path = "/" + f.Ident.NS + "/" + f.Ident.Text + f.Rem
	case "subdomain":
		u.Host = f.Label + "." + f.Ident.NS + "." + c.GwHost
		u.Path = f.Rem
	case "dnslink":
		u.Host = f.Ident.Text
		if f.Port {
			u.Host += ":8081"
		}
		u.Path = f.Rem
	case "gwhost-dnslink":
		// the gateway's own hostname has a DNSLink record and the path is not a gateway path
		u.Host = c.GwHost
		u.Path = "/foo" + f.Rem
	}
	if u.Path == "" {
		u.Path = "/"
	}
	if f.Fragment != "" {
		fr, err := url.PathUnescape(f.Fragment)
		must(err)
		u.Fragment = fr
		u.RawFragment = f.Fragment
	}
	return u
}

func run(f flow) result {
	var res result
	next := http.HandlerFunc(func(w http.ResponseWriter, r *http.Request) {
		res.called = true
		res.nextPath = r.URL.Path
		res.nextRaw = r.URL.EscapedPath()
		res.nextQ = r.URL.RawQuery
		w.WriteHeader(http.StatusOK)
	})
	h := configs[f.Cfg].handler(f.records(), next)
	u := f.firstURL()
	https := f.HTTPS
	seen := map[string]bool{}
	for i := 0; i < 6; i++ {
		req, err := http.NewRequest("GET", u.String(), nil)
		must(err)
		req.Host = u.Host
		if f.XFHost {
			req.Header.Set("X-Forwarded-Host", u.Host)
			req.Host = internalHost
			req.URL.Host = internalHost
		}
		if https {
			req.Header.Set("X-Forwarded-Proto", "https")
		}
		// a server never sees scheme/host in r.URL of an origin-form request
		req.URL.Scheme, req.URL.Host = "", ""
		req.RequestURI = req.URL.RequestURI()
		rec := httptest.NewRecorder()
		h.ServeHTTP(rec, req)
		res.final = rec.Code
		if rec.Code/100 != 3 {
			return res
		}
		loc := rec.Header().Get("Location")
		res.hops = append(res.hops, hop{rec.Code, loc})
		if seen[loc] {
			res.loop = true
			return res
		}
		seen[loc] = true
		nu, err := url.Parse(loc)
		if err != nil {
			return res
		}
		if nu.Host == "" { // relative redirect
			nu = u.ResolveReference(nu)
		}
		https = nu.Scheme == "https"
		u = nu
	}
	res.loop = true
	return res
}

// expected identity of the path seen by next
func sameContent(f flow, p string) (ok bool, rest string, why string) {
	segs := strings.SplitN(p, "/", 4)
	if len(segs) < 3 || segs[0] != "" {
		return false, "", "path has no /ns/id prefix"
	}
	ns, id := segs[1], segs[2]
	if len(segs) == 4 {
		rest = "/" + segs[3]
	}
	if ns != f.Ident.NS {
		return false, rest, fmt.Sprintf("namespace %q, want %q", ns, f.Ident.NS)
	}
	switch f.Ident.Kind {
	case "cid":
		c, err := cid.Decode(id)
		if err != nil {
			return false, rest, fmt.Sprintf("root %q is not a CID: %v", id, err)
		}
		if string(c.Hash()) != string(f.Ident.mhash) {
			return false, rest, fmt.Sprintf("multihash of %q differs from the requested one", id)
		}
	case "peer":
		var got mh.Multihash
		if pid, err := peer.Decode(id); err == nil {
			got = mh.Multihash(pid)
		} else if c, err := cid.Decode(id); err == nil {
			got = c.Hash()
		} else {
			return false, rest, fmt.Sprintf("root %q is neither a peer ID nor a CID", id)
		}
		if string(got) != string(f.Ident.mhash) {
			return false, rest, fmt.Sprintf("multihash of %q differs from the requested key", id)
		}
	case "dnslink":
		if id != f.Ident.Text {
			return false, rest, fmt.Sprintf("DNSLink name %q, want %q", id, f.Ident.Text)
		}
	}
	return true, rest, ""
}

// fits: can the identifier be represented in one DNS label at all (model of the spec's rule)?
func fits(f flow, inlineActive bool) bool {
	switch f.Ident.Kind {
	case "cid", "peer":
		c := cid.NewCidV1(cid.Raw, f.Ident.mhash)
		s32, _ := c.StringOfBase(mbase.Base32)
		s36, _ := c.StringOfBase(mbase.Base36)
		return len(s32) <= 63 || len(s36) <= 63
	default:
		if !inlineActive {
			return true
		}
		n := len(f.Ident.Text) + strings.Count(f.Ident.Text, "-")
		return n <= 63
	}
}

func identClass(f flow) string {
	if f.Ident.Kind == "dnslink" {
		if strings.Contains(f.Ident.Text, ".") {
			return "dnslink-fqdn"
		}
		if strings.Contains(f.Ident.Text, "-") {
			return "dnslink-single-label-hyphen"
		}
		return "dnslink-single-label"
	}
	return f.Ident.Kind
}

func judge(f flow, res result) (*eng.Violation, string) {
	c := configs[f.Cfg]
	feat := []string{"mode", f.Mode, "ident", identClass(f), "subdomain_gw", fmt.Sprint(c.Subdomain), "inline", fmt.Sprint(c.Inline || f.HTTPS),
		"x_forwarded_host", fmt.Sprint(f.XFHost), "records", f.Records, "fragment", fmt.Sprint(f.Fragment != ""), "redirects", fmt.Sprint(len(res.hops))}
	mk := func(sym, detail string) *eng.Violation {
		var hs []string
		for _, h := range res.hops {
			hs = append(hs, fmt.Sprintf("%d -> %s", h.status, h.location))
		}
		v := eng.V(sym, f.Mode, fmt.Sprintf("config=%s %s (%s %s) https=%v xfhost=%v records=%s; hops=[%s]; final status %d, next saw path=%q query=%q: %s",
			c.Name, f.firstURL().String(), f.Ident.Kind, f.Ident.Desc, f.HTTPS, f.XFHost, f.Records, strings.Join(hs, "; "), res.final, res.nextPath, res.nextQ, detail), feat...)
		v.Replay = f
		return v
	}
	// every produced label fits the DNS limit, and redirects keep query and fragment
	for _, h := range res.hops {
		lu, err := url.Parse(h.location)
		if err != nil {
			return mk("bad-location", err.Error()), "redirect"
		}
		for _, l := range strings.Split(strings.Split(lu.Host, ":")[0], ".") {
			if len(l) > 63 || l == "" {
				return mk("label-too-long", fmt.Sprintf("label %q of the redirect host has %d characters", l, len(l))), "redirect"
			}
		}
		if lu.RawQuery != f.Query {
			return mk("query-not-preserved", fmt.Sprintf("Location query %q, want %q", lu.RawQuery, f.Query)), "redirect"
		}
		if f.Fragment != "" && lu.EscapedFragment() != f.Fragment {
			return mk("fragment-not-preserved", fmt.Sprintf("Location fragment %q, want %q", lu.EscapedFragment(), f.Fragment)), "redirect"
		}
		if f.HTTPS && lu.Scheme != "https" {
			return mk("scheme-downgrade", "https request redirected to "+lu.Scheme), "redirect"
		}
	}
	if res.loop {
		return mk("redirect-loop", "the redirects never reach a content path"), "loop"
	}
	if !res.called {
		inlineActive := (c.Inline || f.HTTPS) && c.Subdomain
		switch {
		case res.final == http.StatusBadRequest && !fits(f, inlineActive) && c.Subdomain:
			return nil, "400-does-not-fit-label"
		case f.Mode == "gwhost-dnslink" && res.final == http.StatusNotFound && (c.NoDNSLink || f.Records == "none"):
			return nil, "404-no-dnslink"
		}
		return mk("unexpected-error", fmt.Sprintf("status %d and no content path although the identifier is valid", res.final)), "error"
	}
	// content identity
	if f.Mode == "dnslink" && (c.NoDNSLink || f.Records == "none") {
		// no mapping is expected: the path must be left alone
		want := f.firstURL().Path
		if res.nextPath != want {
			return mk("path-rewritten-without-dnslink", fmt.Sprintf("path %q, want untouched %q", res.nextPath, want)), "passthrough"
		}
		return nil, "passthrough"
	}
	if f.Ident.Kind == "dnslink" && f.Records == "none" {
		// the requested name has no DNSLink record, i.e. it names no content: nothing to preserve
		// (the gateway deliberately prefers the un-inlined spelling for its error message)
		return nil, "no-such-dnslink"
	}
	ok, rest, why := sameContent(f, res.nextPath)
	if !ok {
		return mk("content-identity-changed", why), "mapped"
	}
	wantRem := f.Rem
	if f.Mode == "gwhost-dnslink" {
		wantRem = "/foo" + f.Rem
	}
	if (rest == "" || rest == "/") && (wantRem == "" || wantRem == "/") {
		rest, wantRem = "", ""
	}
	if rest != wantRem {
		return mk("remainder-not-preserved", fmt.Sprintf("remainder %q, want %q", rest, wantRem)), "mapped"
	}
	if res.nextQ != f.Query {
		return mk("query-not-preserved", fmt.Sprintf("query %q, want %q", res.nextQ, f.Query)), "mapped"
	}
	out := fmt.Sprintf("mapped-after-%d-redirects", len(res.hops))
	if !c.Subdomain && len(res.hops) > 0 {
		return mk("path-gateway-redirected", "a gateway without UseSubdomains redirected"), out
	}
	return nil, out
}

// ---------------------------------------------------------------------------
// enumeration

func labelsFor(id ident, c gwConfig) []string {
	// textual forms that can be put in front of .<ns>.<gw>: the identifier itself when DNS-compatible,
	// its canonical base32/base36 CIDv1 forms, the inlined DNSLink label
	var out []string
	switch id.Kind {
	case "dnslink":
		out = append(out, id.Text)
		if l, err := gateway.InlineDNSLink(id.Text); err == nil && l != id.Text {
			out = append(out, l)
		}
	default:
		if !strings.ContainsAny(id.Text, "_=+/") && len(id.Text) <= 63 {
			out = append(out, id.Text)
		}
		codec := uint64(cid.Raw)
		if id.Kind == "peer" {
			codec = cid.Libp2pKey
		}
		for _, b := range []mbase.Encoding{mbase.Base32, mbase.Base36} {
			s, _ := cid.NewCidV1(codec, id.mhash).StringOfBase(b)
			if s != id.Text && len(s) <= 63 {
				out = append(out, s)
			}
		}
	}
	return out
}

func body(r *eng.Run) {
	th := r.Thorough()
	r.Rule("(1) every valid DNS name over {a,1,-,.} up to length 7 (thorough 9) and length-boundary names: Uninline(Inline(d)) == d, label <= 63 or error exactly when longer; (2) every flow = configuration (subdomain gw, +inlining, +port, wildcard host, localhost, path gw, NoDNSLink) x mode (path request to the gateway host, subdomain host, DNSLink host with and without port, non-gateway path on the gateway's own DNSLinked host) x identifier (CIDv0, CIDv1 over 6 multihashes x 4 codecs x 3-5 bases, 4 peer-key shapes in legacy and CID forms incl. wrong multicodec, DNS names) x remainder {'', '/', '/a/b', '/a b', '/?' (encoded %3F)} x query {'', 'x=1&y=%2F&a=b+c'} x X-Forwarded-Proto {-, https} (+ fragment, X-Forwarded-Host, alias-record variants on sub-grids); redirects are followed like a client would (max 6 hops) until the inner handler sees a content path; non-trivial = every flow")
	r.Assume("go-cid / go-multibase / peer.Decode decode identifiers correctly (used by the oracle to compare multihashes)")
	r.Assume("a client re-issues the request at the Location URL unchanged; behind a proxy (X-Forwarded-Host variant) the public host is again delivered in X-Forwarded-Host")

	// ---- part 1: pure label functions
	names := allNames("a1-.", eng.Pick(r, 7, 9))
	names = append(names, boundaryNames()...)
	r.Set("dns_names_roundtrip", len(names))
	eng.ParFor(len(names), func(i int) {
		d := names[i]
		l, err := gateway.InlineDNSLink(d)
		want := len(d) + strings.Count(d, "-")
		f := flow{Mode: "inline", Ident: ident{Text: d, Kind: "dnslink", NS: "ipns"}}
		switch {
		case err != nil && want <= 63:
			v := eng.V("inline-error", "InlineDNSLink", fmt.Sprintf("InlineDNSLink(%q) = %v although the label would have %d characters", d, err, want))
			v.Replay = f
			r.Report(v)
		case err == nil && len(l) > 63:
			v := eng.V("label-too-long", "InlineDNSLink", fmt.Sprintf("InlineDNSLink(%q) = %q (%d characters)", d, l, len(l)))
			v.Replay = f
			r.Report(v)
		case err == nil:
			if strings.Contains(l, ".") {
				v := eng.V("inlined-label-has-dot", "InlineDNSLink", fmt.Sprintf("InlineDNSLink(%q) = %q", d, l))
				v.Replay = f
				r.Report(v)
			}
			if back := gateway.UninlineDNSLink(l); back != d {
				v := eng.V("inline-roundtrip", "UninlineDNSLink", fmt.Sprintf("Uninline(Inline(%q)=%q) = %q", d, l, back))
				v.Replay = f
				r.Report(v)
			}
			r.Outcome("inline-ok")
		default:
			r.Outcome("inline-too-long")
		}
		r.Distinct("inline|" + d)
	})
	r.Eval(len(names))

	// ---- part 2: flows
	ids := identifiers(th)
	dnsNames := allNames("a1-.", eng.Pick(r, 5, 6))
	dnsNames = append(dnsNames, boundaryNames()...)
	ambiguous := 0
	for _, d := range dnsNames {
		if _, err := peer.Decode(d); err == nil {
			// e.g. "11": also a well-formed legacy peer ID (base58 of an empty identity multihash);
			// the gateway documents that peer IDs win, so the string is not a DNSLink name
			ambiguous++
			continue
		}
		ids = append(ids, ident{Text: d, Kind: "dnslink", NS: "ipns", Desc: "dns"})
	}
	r.Set("dns_names_that_are_also_peer_ids_skipped", ambiguous)
	r.Set("identifiers", len(ids))
	r.Set("configs", len(configs))
	rems := []string{"", "/", "/a/b", "/a b", "/?"}
	queries := []string{"", "x=1&y=%2F&a=b+c"}
	eng.ParFor(len(ids)*len(configs), func(k int) {
		if r.Expired() {
			return
		}
		id := ids[k/len(configs)]
		ci := k % len(configs)
		c := configs[ci]
		n := 0
		exec := func(f flow) {
			var res result
			if g := eng.Guard(f.Mode, func() { res = run(f) }); g != nil {
				g.Replay = f
				r.Report(g)
				return
			}
			v, out := judge(f, res)
			if v != nil {
				r.Report(v)
			}
			r.Outcome(f.Mode + ":" + out)
			r.Add("outcome:"+f.Mode+":"+out, 1)
			b, _ := json.Marshal(f)
			r.Distinct(string(b))
			if n == 7 && ci == 1 {
				r.Sample(map[string]any{"flow": f, "hops": len(res.hops), "next_path": res.nextPath})
			}
			n++
		}
		if k/len(configs) == 0 {
			host := strings.Split(c.GwHost, ":")[0]
			for _, https := range []bool{false, true} {
				for _, rem := range rems {
					for _, q := range queries {
						for _, rec := range []string{"self", "none"} {
							exec(flow{Cfg: ci, Mode: "gwhost-dnslink", Ident: ident{Text: host, Kind: "dnslink", NS: "ipns", Desc: "gateway host"}, Rem: rem, Query: q, HTTPS: https, Records: rec})
						}
					}
				}
			}
		}
		recs := []string{"self"}
		if id.Kind == "dnslink" {
			recs = append(recs, "none")
			if strings.Contains(id.Text, ".") {
				recs = append(recs, "self+alias")
			}
		}
		for _, https := range []bool{false, true} {
			for _, rem := range rems {
				for _, q := range queries {
					for _, rec := range recs {
						base := flow{Cfg: ci, Ident: id, Rem: rem, Query: q, HTTPS: https, Records: rec}
						// path request
						f := base
						f.Mode = "path"
						exec(f)
						// subdomain host requests
						if c.Subdomain {
							for _, l := range labelsFor(id, c) {
								f := base
								f.Mode, f.Label = "subdomain", l
								exec(f)
							}
						}
						// DNSLink host
						if id.Kind == "dnslink" && ci%2 == 0 {
							f := base
							f.Mode = "dnslink"
							exec(f)
							f.Port = true
							exec(f)
						}
					}
				}
			}
			// sub-grids: fragment and X-Forwarded-Host
			for _, frag := range []string{"frag", "a%2Fb"} {
				f := flow{Cfg: ci, Mode: "path", Ident: id, Rem: "/a/b", Query: "x=1&y=%2F&a=b+c", Fragment: frag, HTTPS: https, Records: "self"}
				exec(f)
			}
			for _, rem := range []string{"", "/a/b"} {
				f := flow{Cfg: ci, Mode: "path", Ident: id, Rem: rem, Query: "x=1&y=%2F&a=b+c", HTTPS: https, XFHost: true, Records: "self"}
				exec(f)
				if c.Subdomain {
					for _, l := range labelsFor(id, c) {
						f := flow{Cfg: ci, Mode: "subdomain", Label: l, Ident: id, Rem: rem, HTTPS: https, XFHost: true, Records: "self"}
						exec(f)
					}
				}
			}
		}
		r.Eval(n)
	})
	if r.Expired() {
		r.Incomplete("budget expired")
	}
}

func replay(r *eng.Run, raw json.RawMessage) {
	var f flow
	must(json.Unmarshal(raw, &f))
	if f.Mode == "inline" {
		l, err := gateway.InlineDNSLink(f.Ident.Text)
		fmt.Printf("replay: InlineDNSLink(%q) = %q, %v; Uninline = %q\n", f.Ident.Text, l, err, gateway.UninlineDNSLink(l))
		if err == nil && gateway.UninlineDNSLink(l) != f.Ident.Text {
			r.Report(eng.V("inline-roundtrip", "UninlineDNSLink", "round trip differs"))
		}
		r.Eval(1)
		return
	}
	// recover the multihash of the identifier (not serialised)
	switch f.Ident.Kind {
	case "cid":
		c, err := cid.Decode(f.Ident.Text)
		must(err)
		f.Ident.mhash = c.Hash()
	case "peer":
		p, err := peer.Decode(f.Ident.Text)
		if err == nil {
			f.Ident.mhash = mh.Multihash(p)
		} else {
			c, err := cid.Decode(f.Ident.Text)
			must(err)
			f.Ident.mhash = c.Hash()
		}
	}
	res := run(f)
	fmt.Printf("replay: %s config=%s https=%v xfhost=%v records=%s\n", f.firstURL(), configs[f.Cfg].Name, f.HTTPS, f.XFHost, f.Records)
	for _, h := range res.hops {
		fmt.Printf("  %d -> %s\n", h.status, h.location)
	}
	fmt.Printf("  final status %d, next called=%v path=%q query=%q\n", res.final, res.called, res.nextPath, res.nextQ)
	v, _ := judge(f, res)
	if v != nil {
		r.Report(v)
	}
	r.Eval(1)
}

func main() {
	eng.Main("C32", "exploration", body, replay)
}
