//go:build verif

package main

import (
	"context"
	"encoding/json"
	"fmt"
	"io"
	"os"
	gopath "path"
	"sort"
	"strings"
	"sync"
	"time"

	bserv "github.com/ipfs/boxo/blockservice"
	bstore "github.com/ipfs/boxo/blockstore"
	offline "github.com/ipfs/boxo/exchange/offline"
	dag "github.com/ipfs/boxo/ipld/merkledag"
	ft "github.com/ipfs/boxo/ipld/unixfs"
	uio "github.com/ipfs/boxo/ipld/unixfs/io"
	"github.com/ipfs/boxo/mfs"
	"github.com/ipfs/boxo/verifshim/eng"
	cid "github.com/ipfs/go-cid"
	ds "github.com/ipfs/go-datastore"
	dssync "github.com/ipfs/go-datastore/sync"
	ipld "github.com/ipfs/go-ipld-format"
	mh "github.com/multiformats/go-multihash"
)

// ---------------------------------------------------------------------------
// alphabet

var dirPaths = []string{"/a", "/b", "/a/x", "/b/x"} // same basename x in different parents
var filePaths = []string{"/f", "/a/f", "/a/x/f", "/b/x/f"}
var allPaths = append(append([]string{}, dirPaths...), filePaths...)

// destinations of Mv: every alphabet path, "into directory" forms and the root
var mvDst = append(append([]string{}, allPaths...), "/a/", "/b/x/", "/")

var mtimes = []time.Time{{}, time.Unix(1000000000, 0), time.Unix(1500000000, 500)}

const (
	modeA = 0o640
	modeB = 0o755
)

// call orders on one write descriptor (w Write, t Truncate, f Flush; Close at the end)
var fdScripts = []string{"wft", "ft", "tfw"}
var fdScriptsThorough = []string{"fw", "wfw", "tft", "fwt"}

var v1Builder = cid.V1Builder{Codec: cid.DagProtobuf, MhType: mh.SHA2_256}

var theRun *eng.Run
var thorough bool

// ---------------------------------------------------------------------------
// reference model: a plain tree

type mnode struct {
	dir   bool
	kids  map[string]*mnode
	data  string
	mode  uint32 // permission bits, 0 = none stored
	mtime int    // 0 = none stored, k>0 = mtimes[k], -1 = some time chosen by MFS (content was modified while an mtime was stored)
}

func newDir() *mnode { return &mnode{dir: true, kids: map[string]*mnode{}} }

func comps(p string) []string {
	out := []string{}
	for _, c := range strings.Split(p, "/") {
		if c != "" {
			out = append(out, c)
		}
	}
	return out
}

func (m *mnode) get(p string) *mnode {
	cur := m
	for _, c := range comps(p) {
		if cur == nil || !cur.dir {
			return nil
		}
		cur = cur.kids[c]
	}
	return cur
}

func (m *mnode) flatten(p string, out map[string]*mnode) {
	if p == "" {
		out["/"] = m
	} else {
		out[p] = m
	}
	if m.dir {
		for n, k := range m.kids {
			k.flatten(p+"/"+n, out)
		}
	}
}

func (m *mnode) render(sb *strings.Builder) {
	if !m.dir {
		fmt.Fprintf(sb, "F(%o,%d,%q)", m.mode, m.mtime, m.data)
		return
	}
	fmt.Fprintf(sb, "D(%o,%d){", m.mode, m.mtime)
	names := make([]string, 0, len(m.kids))
	for n := range m.kids {
		names = append(names, n)
	}
	sort.Strings(names)
	for _, n := range names {
		sb.WriteString(n + ":")
		m.kids[n].render(sb)
		sb.WriteString(",")
	}
	sb.WriteString("}")
}

// ---------------------------------------------------------------------------
// observation of the implementation

type obs struct {
	dir   bool
	data  string
	mode  uint32
	mtime time.Time
}

func (o obs) String() string {
	if o.dir {
		return fmt.Sprintf("dir(mode=%o mtime=%d)", o.mode, o.mtime.Unix())
	}
	return fmt.Sprintf("file(mode=%o mtime=%d data=%q)", o.mode, o.mtime.Unix(), o.data)
}

// mismatch kinds, in the order they are looked for
func compare(want map[string]*mnode, got map[string]obs) (kind, path, detail string) {
	paths := map[string]bool{}
	for p := range want {
		paths[p] = true
	}
	for p := range got {
		paths[p] = true
	}
	sorted := make([]string, 0, len(paths))
	for p := range paths {
		sorted = append(sorted, p)
	}
	sort.Strings(sorted)
	// structural mismatches first (all paths), then attributes
	for _, p := range sorted {
		w, okw := want[p]
		g, okg := got[p]
		switch {
		case okw && !okg:
			return "entry-missing", p, fmt.Sprintf("%s: model has it, MFS does not", p)
		case !okw && okg:
			return "entry-unexpected", p, fmt.Sprintf("%s: MFS shows %v, model has nothing there", p, g)
		case w.dir != g.dir:
			return "type-mismatch", p, fmt.Sprintf("%s: MFS shows %v, model dir=%v", p, g, w.dir)
		}
	}
	for _, p := range sorted {
		w, g := want[p], got[p]
		if !w.dir && w.data != g.data {
			return "content-mismatch", p, fmt.Sprintf("%s: content %q, model %q", p, g.data, w.data)
		}
	}
	for _, p := range sorted {
		w, g := want[p], got[p]
		if w.mode != g.mode {
			return "mode-mismatch", p, fmt.Sprintf("%s: mode %o, model %o", p, g.mode, w.mode)
		}
		switch {
		case w.mtime == -1:
		case !mtimes[w.mtime].Equal(g.mtime):
			return "mtime-mismatch", p, fmt.Sprintf("%s: mtime %v, model %v", p, g.mtime.UTC(), mtimes[w.mtime].UTC())
		}
	}
	return "", "", ""
}

// ---------------------------------------------------------------------------
// system under test

type sys struct {
	cfg    string
	pub    bool
	hamt   bool
	ctx    context.Context
	cancel context.CancelFunc
	dserv  ipld.DAGService
	rt     *mfs.Root
	model  *mnode

	pmu       sync.Mutex
	published []cid.Cid

	last     string   // last op
	lastFeat []string // features of the last op (for violations found by Check)
	mvSrc    string   // source path of the last Mv
	sawHAMT  bool
	obsEach  bool
	cidv1    bool
	pf       mfs.PubFunc
	opts     []mfs.Option
}

func newSys(cfg string) eng.Sys {
	s := &sys{cfg: cfg, model: newDir()}
	s.pub = strings.Contains(cfg, "pub=1")
	s.hamt = strings.Contains(cfg, "hamt=1")
	s.obsEach = strings.Contains(cfg, "obs=each")
	s.cidv1 = strings.Contains(cfg, "cid=1")
	s.ctx, s.cancel = context.WithCancel(context.Background())
	db := dssync.MutexWrap(ds.NewMapDatastore())
	bs := bstore.NewBlockstore(db)
	s.dserv = dag.NewDAGService(bserv.New(bs, offline.Exchange(bs)))
	var pf mfs.PubFunc
	if s.pub {
		pf = func(ctx context.Context, c cid.Cid) error {
			s.pmu.Lock()
			s.published = append(s.published, c)
			s.pmu.Unlock()
			return nil
		}
	}
	opts := []mfs.Option{}
	if s.hamt {
		// a directory becomes a HAMT when it gets its 3rd entry and goes back
		// to a basic directory when it shrinks to 2
		opts = append(opts, mfs.WithMaxLinks(2), mfs.WithMaxHAMTFanout(8))
	}
	if s.cidv1 {
		// a CIDv1 MFS: files get raw leaves, a one-block file is a bare raw block
		opts = append(opts, mfs.WithCidBuilder(v1Builder))
	}
	s.pf, s.opts = pf, opts
	rt, err := mfs.NewEmptyRoot(s.ctx, s.dserv, pf, nil, opts...)
	if err != nil {
		panic(err)
	}
	s.rt = rt
	if strings.Contains(cfg, "init=pop") {
		for _, op := range populate {
			if o, v := s.Do(op); v != nil || o != "ok" {
				panic(fmt.Sprintf("initial tree: %s => %s %+v", op, o, v))
			}
		}
	}
	s.last, s.lastFeat = "init", s.cfgFeat()
	return s
}

// populate builds the initial tree of the "init=pop" configurations through
// the real API (and the model): /a/{x/{f},f="xy" written through a descriptor} /b/{x/} /f  - the root has three
// entries, so with MaxLinks=2 it already is a HAMT directory.
var populate = []string{"MkdirP /a/x", "MkdirP /b/x", "Create /a/x/f", "Create /a/f", "Write /a/f", "CreateRaw /f"}

func (s *sys) Close() {
	if s.rt != nil {
		func() {
			defer func() { recover() }()
			s.rt.Close()
		}()
	}
	s.cancel()
}

func (s *sys) present(paths []string) []string {
	out := []string{}
	for _, p := range paths {
		if s.model.get(p) != nil {
			out = append(out, p)
		}
	}
	return out
}

func firstAbsent(s *sys, paths []string) string {
	for _, p := range paths {
		if s.model.get(p) == nil {
			return p
		}
	}
	return ""
}

func (s *sys) Ops() []string {
	ops := []string{}
	for _, p := range dirPaths {
		ops = append(ops, "Mkdir "+p)
	}
	for _, p := range filePaths {
		ops = append(ops, "Create "+p)
	}
	for _, p := range []string{"/a/x", "/b/x", "/f", "/a/f/x"} {
		ops = append(ops, "MkdirP "+p)
	}
	ops = append(ops, "MkdirPM /a/x", "MkdirPM /b/x", "MkdirM /a", "Mkdir /f", "CreateRaw /f", "CreateRaw /a/f", "CreatePB /f", "Create /a", "Create /a/x")
	if thorough {
		ops = append(ops, "CreateRaw /a/x/f", "CreateRaw /b/x/f", "MkdirF /a", "MkdirF /a/x", "MkdirPN /a/x", "MkdirPN /b/x", "CreatePB /a/f")
	}
	pres := s.present(allPaths)
	absent := firstAbsent(s, allPaths)
	for _, p := range pres {
		if !s.model.get(p).dir {
			ops = append(ops, "Write "+p, "Trunc "+p, "Append "+p)
			for _, sc := range fdScripts {
				ops = append(ops, "Fd "+p+" "+sc)
			}
			ops = append(ops, "WriteNS "+p, "TruncNS "+p)
			if thorough {
				ops = append(ops, "AppendNS "+p, "FdNS "+p+" wft", "FdNS "+p+" tfw")
				for _, sc := range fdScriptsThorough {
					ops = append(ops, "Fd "+p+" "+sc)
				}
			}
		}
	}
	for _, p := range pres {
		for _, d := range mvDst {
			ops = append(ops, "Mv "+p+" "+d)
		}
	}
	for _, p := range pres {
		ops = append(ops, "Unlink "+p)
	}
	for _, p := range append([]string{"/"}, pres...) {
		ops = append(ops, "Chmod "+p, "Touch "+p, "FlushPath "+p)
		if thorough {
			ops = append(ops, "Chmod2 "+p, "Touch2 "+p)
		}
	}
	ops = append(ops, "FlushRoot", "Reopen")
	for _, p := range pres {
		ops = append(ops, "Lookup "+p)
	}
	if absent != "" {
		// one representative of every operation on a path that does not exist
		ops = append(ops, "Write "+absent, "Mv "+absent+" /", "Unlink "+absent, "Chmod "+absent, "Touch "+absent, "FlushPath "+absent, "Lookup "+absent)
		if len(pres) > 0 {
			ops = append(ops, "Mv "+pres[0]+" /nodir/g")
		}
	}
	return ops
}

func cls(err error) string {
	if err == nil {
		return "ok"
	}
	return "err"
}

func kindOf(n *mnode) string {
	switch {
	case n == nil:
		return "none"
	case n.dir:
		return "dir"
	}
	return "file"
}

// expectClass reports a violation when the success/failure class differs.
func expectClass(op string, wantOK bool, err error, feat []string) *eng.Violation {
	if wantOK && err != nil {
		return eng.V("unexpected-error", "", fmt.Sprintf("%s failed with %q, the tree model allows it", op, err), feat...)
	}
	if !wantOK && err == nil {
		return eng.V("unexpected-success", "", fmt.Sprintf("%s succeeded, the tree model refuses it", op), feat...)
	}
	return nil
}

func (s *sys) cfgFeat() []string {
	return []string{"pubfunc", map[bool]string{true: "set", false: "nil"}[s.pub], "hamt", fmt.Sprint(s.hamt), "cidv1", fmt.Sprint(s.cidv1)}
}

// Do runs one operation; a panic inside the code under test becomes a
// violation carrying the configuration features.
func (s *sys) Do(op string) (o string, v *eng.Violation) {
	name := strings.Fields(op)[0]
	if pv := eng.Guard(name, func() { o, v = s.do(op) }); pv != nil {
		pv.Features = map[string]string{}
		for i := 0; i+1 < len(s.lastFeat); i += 2 {
			pv.Features[s.lastFeat[i]] = s.lastFeat[i+1]
		}
		pv.Detail = op + ": " + pv.Detail
		return "panic", pv
	}
	if v == nil && s.obsEach {
		// "obs=each": the pure observers of the live view run after every
		// operation on the same root (reads interleaved with mutations)
		if v = s.liveCheck(); v != nil {
			if v.Features == nil {
				v.Features = map[string]string{}
			}
			v.Features["observed"] = "after-every-op"
		}
	}
	return o, s.tag(v)
}

// tag gives violations whose error text names a known error class a symptom
// of their own, so that one defect reached through many observation points is
// one class.
func (s *sys) tag(v *eng.Violation) *eng.Violation {
	if v == nil {
		return nil
	}
	if strings.Contains(v.Detail, "maxLinks reached") {
		v.Symptom = "directory-unusable-maxlinks-reached"
		v.Op = ""
		if v.Features == nil {
			v.Features = map[string]string{}
		}
		v.Features["hamt"] = fmt.Sprint(s.hamt)
		v.Features["err_class"] = "maxlinks-reached"
	}
	return v
}

func (s *sys) do(op string) (string, *eng.Violation) {
	f := strings.Fields(op)
	s.last = op
	s.lastFeat = s.cfgFeat()
	s.mvSrc = ""
	switch f[0] {
	case "Mkdir", "MkdirP", "MkdirF", "MkdirPN", "MkdirM", "MkdirPM":
		// Mkdir: plain; MkdirP: parents + flush (what `ipfs files mkdir -p` does);
		// MkdirF: plain + flush; MkdirPN: parents, no flush
		p := f[1]
		// MkdirM / MkdirPM: plain / parents, with WithMode+WithModTime: the options
		// describe "the created directory" (option.go), i.e. the one named by the
		// path; directories created implicitly by Mkparents carry no metadata
		parents := f[0] == "MkdirP" || f[0] == "MkdirPN" || f[0] == "MkdirPM"
		meta := f[0] == "MkdirM" || f[0] == "MkdirPM"
		c := comps(p)
		wantOK := true
		cur := s.model
		for i, name := range c {
			last := i == len(c)-1
			k := cur.kids[name]
			switch {
			case k == nil && (last || parents):
				cur = nil
			case k == nil:
				wantOK = false
			case !k.dir:
				wantOK = false
			case last && !parents:
				wantOK = false // exists
			default:
				cur = k
			}
			if cur == nil || !wantOK {
				break
			}
		}
		s.lastFeat = append(s.lastFeat, "parents", fmt.Sprint(parents), "target", kindOf(s.model.get(p)))
		var dopts []mfs.Option
		if meta {
			dopts = []mfs.Option{mfs.WithMode(osMode(modeB)), mfs.WithModTime(mtimes[2])}
		}
		s.lastFeat = append(s.lastFeat, "meta_options", fmt.Sprint(meta))
		err := mfs.Mkdir(s.rt, p, mfs.MkdirOpts{Mkparents: parents, Flush: f[0] == "MkdirF" || f[0] == "MkdirP"}, dopts...)
		if v := expectClass(op, wantOK, err, s.lastFeat); v != nil {
			return cls(err), v
		}
		if err == nil {
			cur := s.model
			for i, name := range c {
				if cur.kids[name] == nil {
					cur.kids[name] = newDir()
					if meta && i == len(c)-1 {
						cur.kids[name].mode, cur.kids[name].mtime = modeB, 2
					}
				}
				cur = cur.kids[name]
			}
		}
		return cls(err), nil

	case "Create", "CreateRaw", "CreatePB":
		p := f[1]
		dirp, name := gopath.Split(p)
		par := s.model.get(dirp)
		wantOK := par != nil && par.dir && par.kids[name] == nil
		var nd ipld.Node
		data := ""
		switch f[0] {
		case "Create":
			nd = ft.EmptyFileNode()
		case "CreateRaw":
			data = "hello"
			nd = dag.NewRawNode([]byte(data))
		case "CreatePB": // single dag-pb leaf with inline data, the shape the importer gives a small file without raw leaves
			data = "hello"
			nd = dag.NodeWithData(ft.FilePBData([]byte(data), uint64(len(data))))
		}
		if pn, ok := nd.(*dag.ProtoNode); ok && s.cidv1 {
			pn.SetCidBuilder(v1Builder) // what `files write --create` does on a CIDv1 MFS
		}
		s.lastFeat = append(s.lastFeat, "target", kindOf(s.model.get(p)), "parent", kindOf(par))
		err := mfs.PutNode(s.rt, p, nd)
		if v := expectClass(op, wantOK, err, s.lastFeat); v != nil {
			return cls(err), v
		}
		if err == nil {
			par.kids[name] = &mnode{data: data}
		}
		return cls(err), nil

	case "Write", "WriteNS", "Trunc", "TruncNS", "Append", "AppendNS", "Fd", "FdNS":
		p := f[1]
		m := s.model.get(p)
		s.lastFeat = append(s.lastFeat, "target", kindOf(m))
		fsn, err := mfs.Lookup(s.rt, p)
		if m == nil {
			return cls(err), expectClass("Lookup "+p, false, err, s.lastFeat)
		}
		if err != nil {
			return "err", expectClass("Lookup "+p, true, err, s.lastFeat)
		}
		fi, ok := fsn.(*mfs.File)
		if !ok {
			return "notfile", eng.V("type-mismatch", "Lookup", fmt.Sprintf("Lookup(%s) is %T, model has a file", p, fsn), s.lastFeat...)
		}
		oldLen := len(m.data)
		shape := "?"
		if nd, err := fi.GetNode(); err == nil {
			switch n := nd.(type) {
			case *dag.RawNode:
				shape = "raw"
			case *dag.ProtoNode:
				shape = "pb-empty"
				if len(n.Links()) > 0 {
					shape = "pb-links"
				} else if fsn, err := ft.FSNodeFromBytes(n.Data()); err == nil && len(fsn.Data()) > 0 {
					shape = "pb-inline-leaf"
				}
			}
		}
		fd, err := fi.Open(s.ctx, mfs.Flags{Write: true, Sync: !strings.HasSuffix(f[0], "NS")})
		if err != nil {
			return "err", expectClass("Open "+p, true, err, s.lastFeat)
		}
		// every variant is a script of calls on ONE descriptor: w = Write("xy")
		// at the current offset, a = seek to the end + Write("z"), t =
		// Truncate(1), f = Flush; Close at the end.  Fd scripts never write
		// after a truncate that follows a write, so every offset is unambiguous.
		// the ...NS twins close the descriptor without Sync (`files write --flush=false`):
		// the new content is only in the File object until the parent syncs its cache
		s.lastFeat = append(s.lastFeat, "sync", fmt.Sprint(!strings.HasSuffix(f[0], "NS")))
		script := map[string]string{"Write": "w", "WriteNS": "w", "Append": "a", "AppendNS": "a", "Trunc": "t", "TruncNS": "t"}[f[0]]
		if f[0] == "Fd" || f[0] == "FdNS" {
			script = f[2]
			s.lastFeat = append(s.lastFeat, "script", script)
			theRun.Add("fd_script_"+script, 1)
		}
		// model first (so that the features are known if the code under test panics)
		payloads := []string{}
		extends := false // some step made the file longer than it was just before that step
		off := 0
		for _, c := range script {
			before := len(m.data)
			switch c {
			case 'w':
				d := m.data
				for len(d) < off+2 {
					d += "\x00"
				}
				// the payload always differs from what is there, so a lost
				// write is never invisible
				pl := "xy"
				if d[off:off+2] == pl {
					pl = "XY"
				}
				payloads = append(payloads, pl)
				m.data = d[:off] + pl + d[off+2:]
				off += 2
			case 'a':
				m.data += "z"
				off = len(m.data)
			case 't':
				m.data = (m.data + "\x00")[:1]
			}
			if len(m.data) > before {
				extends = true
			}
		}
		_ = oldLen
		s.lastFeat = append(s.lastFeat, "file_shape", shape, "extends", fmt.Sprint(extends))
		theRun.Add("write_"+shape+"_extends_"+fmt.Sprint(extends), 1)
		theRun.Logf("%s: file shape %s", op, shape)
		var werr error
		for _, c := range script {
			if werr != nil {
				break
			}
			switch c {
			case 'w':
				_, werr = fd.Write([]byte(payloads[0]))
				payloads = payloads[1:]
			case 'a':
				if _, werr = fd.Seek(0, io.SeekEnd); werr == nil {
					_, werr = fd.Write([]byte("z"))
				}
			case 't':
				werr = fd.Truncate(1)
			case 'f':
				werr = fd.Flush()
			}
		}
		if m.mtime != 0 {
			m.mtime = -1 // MFS stamps the current time on modification of a file that stores an mtime
		}
		cerr := fd.Close()
		if werr != nil || cerr != nil {
			return "err", eng.V("unexpected-error", "", fmt.Sprintf("%s: write/truncate error %v, close error %v", op, werr, cerr), s.lastFeat...)
		}
		return "ok", nil

	case "Mv":
		return s.doMv(op, f[1], f[2])

	case "Unlink":
		p := f[1]
		dirp, name := gopath.Split(p)
		par := s.model.get(dirp)
		m := s.model.get(p)
		s.lastFeat = append(s.lastFeat, "target", kindOf(m))
		var err error
		pd, lerr := mfs.Lookup(s.rt, dirp)
		if lerr != nil {
			err = lerr
		} else if d, ok := pd.(*mfs.Directory); ok {
			err = d.Unlink(name)
		} else {
			err = fmt.Errorf("harness: parent %s is not a directory", dirp)
		}
		if v := expectClass(op, m != nil, err, s.lastFeat); v != nil {
			return cls(err), v
		}
		if err == nil {
			delete(par.kids, name)
		}
		return cls(err), nil

	case "Chmod", "Chmod2":
		p := f[1]
		m := s.model.get(p)
		mode := uint32(modeA)
		if f[0] == "Chmod2" {
			mode = modeB
		}
		s.lastFeat = append(s.lastFeat, "target", kindOf(m))
		err := mfs.Chmod(s.rt, p, osMode(mode))
		if v := expectClass(op, m != nil, err, s.lastFeat); v != nil {
			return cls(err), v
		}
		if err == nil {
			m.mode = mode
		}
		return cls(err), nil

	case "Touch", "Touch2":
		p := f[1]
		m := s.model.get(p)
		ti := 1
		if f[0] == "Touch2" {
			ti = 2
		}
		s.lastFeat = append(s.lastFeat, "target", kindOf(m))
		err := mfs.Touch(s.rt, p, mtimes[ti])
		if v := expectClass(op, m != nil, err, s.lastFeat); v != nil {
			return cls(err), v
		}
		if err == nil {
			m.mtime = ti
		}
		return cls(err), nil

	case "FlushPath":
		p := f[1]
		m := s.model.get(p)
		s.lastFeat = append(s.lastFeat, "target", kindOf(m))
		nd, err := mfs.FlushPath(s.ctx, s.rt, p)
		if v := expectClass(op, m != nil, err, s.lastFeat); v != nil {
			return cls(err), v
		}
		if err == nil {
			// the returned node must describe the model subtree at p
			got := map[string]obs{}
			if rerr := readDag(s.ctx, s.dserv, nd, "", got); rerr != nil {
				return "ok", eng.V("flushed-node-unreadable", "", fmt.Sprintf("node returned by %s cannot be read through the UnixFS readers: %v", op, rerr), s.lastFeat...)
			}
			want := map[string]*mnode{}
			m.flatten("", want)
			if k, mp, d := compare(want, got); k != "" {
				return "ok", eng.V("flushpath-node-"+k, "", fmt.Sprintf("node returned by %s, relative path %s: %s", op, mp, d), s.lastFeat...)
			}
		}
		return cls(err), nil

	case "Reopen":
		// flush, close the root and open a new Root from the flushed root node
		// on the same DAG service: every MFS object is re-created lazily from
		// the DAG.  The tree must be the same.
		if err := s.rt.GetDirectory().Flush(); err != nil {
			return "err", expectClass("Flush before "+op, true, err, s.lastFeat)
		}
		nd, err := s.rt.GetDirectory().GetNode()
		if err != nil {
			return "err", expectClass("GetNode before "+op, true, err, s.lastFeat)
		}
		pn, ok := nd.(*dag.ProtoNode)
		if !ok {
			return "err", eng.V("root-not-protonode", "", fmt.Sprintf("root node is %T", nd), s.lastFeat...)
		}
		if err := s.rt.Close(); err != nil {
			return "err", expectClass("Close before "+op, true, err, s.lastFeat)
		}
		s.rt = nil
		rt, err := mfs.NewRoot(s.ctx, s.dserv, pn, s.pf, nil, s.opts...)
		if err != nil {
			return "err", expectClass("NewRoot", true, err, s.lastFeat)
		}
		s.rt = rt
		theRun.Add("reopens", 1)
		return "ok", nil

	case "FlushRoot":
		err := s.rt.GetDirectory().Flush()
		return cls(err), expectClass(op, true, err, s.lastFeat)

	case "Lookup":
		p := f[1]
		m := s.model.get(p)
		s.lastFeat = append(s.lastFeat, "target", kindOf(m))
		fsn, err := mfs.Lookup(s.rt, p)
		if v := expectClass(op, m != nil, err, s.lastFeat); v != nil {
			return cls(err), v
		}
		if err == nil && mfs.IsDir(fsn) != m.dir {
			return "ok", eng.V("type-mismatch", "", fmt.Sprintf("Lookup(%s) dir=%v, model dir=%v", p, mfs.IsDir(fsn), m.dir), s.lastFeat...)
		}
		return cls(err), nil
	}
	panic("unknown op " + op)
}

func cleanDir(p string) string {
	if p == "/" || p == "" {
		return ""
	}
	return strings.TrimSuffix(p, "/")
}

// doMv: the statement fixes what a move means when it succeeds (the entry
// appears at the destination and disappears from the source) and that a
// failed move changes nothing.  The model therefore (1) names the moves that
// must succeed (source exists, destination directory exists, nothing at the
// final destination), (2) names the moves that cannot be carried out at all
// (missing source / destination directory, final destination inside the moved
// directory): for those the tree must stay as it is, and (3) accepts either
// outcome where a destination entry would have to be replaced - provided the
// tree afterwards is the one that belongs to the reported outcome.
func (s *sys) doMv(op, src, dst string) (string, *eng.Violation) {
	sdirP, sname := gopath.Split(src)
	var ddirP, dname string
	trailing := strings.HasSuffix(dst, "/")
	if trailing {
		ddirP, dname = dst, sname
	} else {
		ddirP, dname = gopath.Split(dst)
	}
	sp := s.model.get(sdirP)
	dp := s.model.get(ddirP)
	var sn *mnode
	if sp != nil && sp.dir {
		sn = sp.kids[sname]
	}
	s.mvSrc = src
	feat := append(s.lastFeat, "src", kindOf(sn), "trailing_slash", fmt.Sprint(trailing))
	// classification
	class := "" // must-ok | must-fail | unchanged | replace
	finalDir, finalDirPath, finalName := dp, cleanDir(ddirP), dname
	dstKind := "none"
	switch {
	case sn == nil || dp == nil || !dp.dir:
		class = "must-fail"
		if dp != nil && dp.dir {
			dstKind = kindOf(dp.kids[dname])
		}
	default:
		t := dp.kids[dname]
		dstKind = kindOf(t)
		into := false
		if t != nil && t.dir {
			finalDir, finalDirPath, finalName = t, finalDirPath+"/"+dname, sname
			into = true
		}
		finalPath := finalDirPath + "/" + finalName
		ex := finalDir.kids[finalName]
		switch {
		case finalPath == src:
			class = "unchanged" // onto itself
		case sn.dir && strings.HasPrefix(finalPath+"/", src+"/"):
			class = "unchanged" // a directory cannot be moved below itself
			feat = append(feat, "dst_inside_src", "true")
		case ex != nil:
			class = "replace"
			feat = append(feat, "replaces", kindOf(ex))
		default:
			class = "must-ok"
		}
		feat = append(feat, "into_dir", fmt.Sprint(into))
		sameParent := cleanDir(sdirP) == finalDirPath
		feat = append(feat, "same_parent", fmt.Sprint(sameParent),
			"parents_same_basename", fmt.Sprint(!sameParent && gopath.Base("/"+cleanDir(sdirP)) == gopath.Base("/"+finalDirPath)),
			"same_name", fmt.Sprint(finalName == sname))
	}
	feat = append(feat, "dst", dstKind, "class", class)
	s.lastFeat = feat
	theRun.Add("mv_"+class, 1)
	err := mfs.Mv(s.rt, src, dst)
	switch class {
	case "must-fail":
		if err == nil {
			return "ok", eng.V("unexpected-success", "", fmt.Sprintf("%s succeeded although source or destination directory does not exist", op), feat...)
		}
	case "must-ok":
		if err != nil {
			return "err", eng.V("unexpected-error", "", fmt.Sprintf("%s failed with %q: source exists, destination directory exists, destination name is free", op, err), feat...)
		}
	}
	if err == nil && (class == "must-ok" || class == "replace") {
		delete(sp.kids, sname)
		finalDir.kids[finalName] = sn
	}
	return cls(err), nil
}

// ---------------------------------------------------------------------------
// state key

func (s *sys) Key() string {
	var sb strings.Builder
	s.model.render(&sb)
	h := s.rt.GetDirectory().VerifHidden()
	if strings.Contains(h, "H{") {
		theRun.Add("states_with_hamt_directory", 1)
	}
	return sb.String() + " | " + h
}

// ---------------------------------------------------------------------------
// observers

func osMode(m uint32) os.FileMode { return os.FileMode(m) }

func fileObs(nd ipld.Node, data string) (obs, error) {
	o := obs{data: data}
	if _, raw := nd.(*dag.RawNode); raw {
		return o, nil
	}
	fsn, err := ft.ExtractFSNode(nd)
	if err != nil {
		return o, err
	}
	o.mode = uint32(fsn.Mode()) & 0xFFF
	o.mtime = fsn.ModTime()
	return o, nil
}

// liveWalk observes the tree through the MFS API only: ListNames + Lookup,
// File.Open/Read/Size, Mode/ModTime getters.
func (s *sys) liveWalk(p string, out map[string]obs) *eng.Violation {
	fsn, err := mfs.Lookup(s.rt, p+"/")
	key := p
	if p == "" {
		key = "/"
	}
	if err != nil {
		return eng.V("live-lookup-error", "Lookup", fmt.Sprintf("Lookup(%s) of a listed name failed: %v", key, err))
	}
	switch n := fsn.(type) {
	case *mfs.Directory:
		o := obs{dir: true}
		md, err := n.Mode()
		if err != nil {
			return eng.V("live-getter-error", "Mode", fmt.Sprintf("Directory.Mode(%s): %v", key, err))
		}
		o.mode = uint32(md) & 0xFFF
		if o.mtime, err = n.ModTime(); err != nil {
			return eng.V("live-getter-error", "ModTime", fmt.Sprintf("Directory.ModTime(%s): %v", key, err))
		}
		out[key] = o
		names, err := n.ListNames(s.ctx)
		if err != nil {
			return eng.V("live-list-error", "ListNames", fmt.Sprintf("ListNames(%s): %v", key, err))
		}
		seen := map[string]bool{}
		for _, nm := range names {
			if seen[nm] {
				return eng.V("live-duplicate-name", "ListNames", fmt.Sprintf("ListNames(%s) lists %q twice", key, nm))
			}
			seen[nm] = true
			if v := s.liveWalk(p+"/"+nm, out); v != nil {
				return v
			}
		}
		// List (ForEachEntry) must show the same names
		ls, err := n.List(s.ctx)
		if err != nil {
			return eng.V("live-list-error", "List", fmt.Sprintf("List(%s): %v", key, err))
		}
		if len(ls) != len(names) {
			return eng.V("live-list-disagree", "List", fmt.Sprintf("List(%s) has %d entries, ListNames %d", key, len(ls), len(names)))
		}
		for _, e := range ls {
			if !seen[e.Name] {
				return eng.V("live-list-disagree", "List", fmt.Sprintf("List(%s) shows %q, ListNames does not", key, e.Name))
			}
		}
	case *mfs.File:
		nd, err := n.GetNode()
		if err != nil {
			return eng.V("live-getter-error", "GetNode", fmt.Sprintf("File.GetNode(%s): %v", key, err))
		}
		fd, err := n.Open(s.ctx, mfs.Flags{Read: true})
		if err != nil {
			return eng.V("live-open-error", "Open", fmt.Sprintf("Open(%s) for reading: %v", key, err))
		}
		b, rerr := io.ReadAll(fd)
		cerr := fd.Close()
		if rerr != nil || cerr != nil {
			return eng.V("live-read-error", "Read", fmt.Sprintf("read %s: %v, close: %v", key, rerr, cerr))
		}
		sz, err := n.Size()
		if err != nil || sz != int64(len(b)) {
			return eng.V("live-size-mismatch", "Size", fmt.Sprintf("File.Size(%s)=%d,%v but %d bytes are readable through a read descriptor: %q", key, sz, err, len(b), b))
		}
		o, err := fileObs(nd, string(b))
		if err != nil {
			return eng.V("live-getter-error", "GetNode", fmt.Sprintf("file node of %s is not UnixFS: %v", key, err))
		}
		// the getters must agree with the node when they answer
		if md, err := n.Mode(); err == nil && uint32(md)&0xFFF != o.mode {
			return eng.V("live-getter-disagree", "Mode", fmt.Sprintf("File.Mode(%s)=%o, node says %o", key, md, o.mode))
		}
		if mt, err := n.ModTime(); err == nil && !mt.Equal(o.mtime) {
			return eng.V("live-getter-disagree", "ModTime", fmt.Sprintf("File.ModTime(%s)=%v, node says %v", key, mt, o.mtime))
		}
		out[key] = o
	default:
		return eng.V("live-lookup-error", "Lookup", fmt.Sprintf("Lookup(%s) returned %T", key, fsn))
	}
	return nil
}

// readDag reads a flushed DAG with the UnixFS readers only (uio directory
// enumeration + DagReader), never through MFS objects.
func readDag(ctx context.Context, dserv ipld.DAGService, nd ipld.Node, p string, out map[string]obs) error {
	key := p
	if p == "" {
		key = "/"
	}
	switch n := nd.(type) {
	case *dag.RawNode:
		out[key] = obs{data: string(n.RawData())}
		return nil
	case *dag.ProtoNode:
		fsn, err := ft.FSNodeFromBytes(n.Data())
		if err != nil {
			return fmt.Errorf("%s: %w", key, err)
		}
		switch fsn.Type() {
		case ft.TDirectory, ft.THAMTShard:
			d, err := uio.NewDirectoryFromNode(dserv, n)
			if err != nil {
				return fmt.Errorf("%s: %w", key, err)
			}
			out[key] = obs{dir: true, mode: uint32(fsn.Mode()) & 0xFFF, mtime: fsn.ModTime()}
			links, err := d.Links(ctx)
			if err != nil {
				return fmt.Errorf("%s: enumerate: %w", key, err)
			}
			for _, l := range links {
				if _, dup := out[p+"/"+l.Name]; dup {
					return fmt.Errorf("%s: name %q listed twice", key, l.Name)
				}
				child, err := l.GetNode(ctx, dserv)
				if err != nil {
					return fmt.Errorf("%s/%s: block %s not in the DAG service: %w", p, l.Name, l.Cid, err)
				}
				if err := readDag(ctx, dserv, child, p+"/"+l.Name, out); err != nil {
					return err
				}
			}
			return nil
		case ft.TFile, ft.TRaw:
			dr, err := uio.NewDagReader(ctx, n, dserv)
			if err != nil {
				return fmt.Errorf("%s: %w", key, err)
			}
			b, err := io.ReadAll(dr)
			if err != nil {
				return fmt.Errorf("%s: read: %w", key, err)
			}
			out[key] = obs{data: string(b), mode: uint32(fsn.Mode()) & 0xFFF, mtime: fsn.ModTime()}
			return nil
		}
		return fmt.Errorf("%s: unexpected UnixFS type %v", key, fsn.Type())
	}
	return fmt.Errorf("%s: unexpected node type %T", key, nd)
}

func (s *sys) diffViolation(phase, kind, path, detail string) *eng.Violation {
	sym := phase + "-" + kind
	f := strings.Fields(s.last)
	if len(f) > 0 && f[0] == "Mv" && kind == "entry-unexpected" && path == s.mvSrc {
		sym = phase + "-mv-source-not-removed"
	}
	feat := append([]string{}, s.lastFeat...)
	if len(s.lastFeat) == 0 {
		feat = s.cfgFeat()
	}
	return eng.V(sym, "", fmt.Sprintf("after %q (%s view): %s", s.last, phase, detail), feat...)
}

func (s *sys) Check() *eng.Violation { return s.tag(s.check()) }

func (s *sys) check() *eng.Violation {
	if v := s.liveCheck(); v != nil {
		return v
	}
	want := map[string]*mnode{}
	s.model.flatten("", want)
	return s.persistCheck(want)
}

// liveCheck: what MFS shows (pure observers only)
func (s *sys) liveCheck() *eng.Violation {
	want := map[string]*mnode{}
	s.model.flatten("", want)
	live := map[string]obs{}
	if v := s.liveWalk("", live); v != nil {
		v.Features = map[string]string{}
		for i := 0; i+1 < len(s.lastFeat); i += 2 {
			v.Features[s.lastFeat[i]] = s.lastFeat[i+1]
		}
		v.Detail = fmt.Sprintf("after %q: %s", s.last, v.Detail)
		return v
	}
	if k, p, d := compare(want, live); k != "" {
		return s.diffViolation("live", k, p, d)
	}
	// Lookup of every alphabet path that the model does not have must fail
	for _, p := range allPaths {
		if _, ok := want[p]; !ok {
			if n, err := mfs.Lookup(s.rt, p); err == nil {
				return s.diffViolation("live", "entry-unexpected", p, fmt.Sprintf("Lookup(%s) succeeds (%T) although no listing shows it", p, n))
			}
		}
	}
	return nil
}

// persistCheck: what MFS persists: flush the root, read the root DAG with the UnixFS readers
func (s *sys) persistCheck(want map[string]*mnode) *eng.Violation {
	if err := s.rt.GetDirectory().Flush(); err != nil {
		return eng.V("flush-error", "Flush", fmt.Sprintf("after %q: root Flush: %v", s.last, err), s.cfgFeat()...)
	}
	rn, err := s.rt.GetDirectory().GetNode()
	if err != nil {
		return eng.V("flush-error", "GetNode", fmt.Sprintf("after %q: root GetNode: %v", s.last, err), s.cfgFeat()...)
	}
	flushed := map[string]obs{}
	if err := readDag(s.ctx, s.dserv, rn, "", flushed); err != nil {
		return eng.V("dag-unreadable", "", fmt.Sprintf("after %q: flushed root DAG: %v", s.last, err), s.lastFeat...)
	}
	if k, p, d := compare(want, flushed); k != "" {
		return s.diffViolation("dag", k, p, d)
	}
	return nil
}

// in this configuration the live-view observers run after every operation
const obsCfg = "pub=1,hamt=0,obs=each"

// a CIDv1 MFS (raw leaves; one-block files are bare raw blocks in their directory)
const v1Cfg = "pub=1,hamt=0,cid=1"

var baseCfgs = []string{"pub=1,hamt=0", "pub=1,hamt=1", "pub=0,hamt=0", "pub=0,hamt=1"}

// two searches: from the empty root, and (shallower) from a populated tree
func specs(r *eng.Run) []eng.SeqSpec {
	theRun = r
	thorough = r.Thorough()
	pop := []string{}
	for _, c := range baseCfgs {
		pop = append(pop, c+",init=pop")
	}
	if !thorough {
		return []eng.SeqSpec{
			{Configs: append(append([]string{}, baseCfgs...), obsCfg, v1Cfg), New: newSys, Depth: 3},
			{Configs: []string{pop[1], pop[2], obsCfg + ",init=pop", v1Cfg + ",init=pop"}, New: newSys, Depth: 2},
		}
	}
	return []eng.SeqSpec{
		{Configs: append(append([]string{}, baseCfgs...), v1Cfg), New: newSys, Depth: 4},
		{Configs: []string{obsCfg}, New: newSys, Depth: 3},
		{Configs: []string{pop[0], pop[2], pop[3], obsCfg + ",init=pop", v1Cfg + ",init=pop"}, New: newSys, Depth: 2},
		{Configs: []string{pop[1]}, New: newSys, Depth: 3},
	}
}

func main() {
	eng.Main("C19", "model_checking", func(r *eng.Run) {
		r.Rule("BFS over sequences of Mkdir/Mkdir -p/PutNode(create)/open-write-close/open-truncate-close/open-append-close (each also closed without Sync)/Reopen (flush+Close+NewRoot from the flushed node)/write-flush-truncate call orders on one descriptor/Mkdir with WithMode+WithModTime (only the named directory gets them)/Mv/Unlink/Chmod/Touch/FlushPath/root Flush/Lookup on a fresh mfs.Root (4 configurations: publish function set or nil x default or tiny (MaxLinks=2) sharding, + 1 configuration in which the live-view observers run after every operation on the same root + 1 CIDv1 (raw leaves) configuration); successor = replay on a fresh root + 1 op; state = model tree + entriesCache contents and basic/HAMT kind of every cached directory; after every transition (a) the tree shown by ListNames/List/Lookup/Open+Read/Size/Mode/ModTime and (b) the root DAG after Flush read through uio directories + DagReader are compared with the model tree incl. contents, mode, mtime; a failed op must leave both unchanged; non-trivial = path of >= 2 operations")
		r.Assume("in-memory DAG service (map datastore, offline exchange) is correct; UnixFS readers (uio.Directory enumeration, DagReader) are correct (C08/C09/C15)")
		r.Assume("one operation at a time per root (concurrency is C20); file descriptors are opened, used and closed within one operation")
		n, bounds := 0, []string{}
		for i, sp := range specs(r) {
			eng.ExploreSeq(r, sp)
			r.Set(fmt.Sprintf("search_%d", i), map[string]any{"configs": sp.Configs, "depth": sp.Depth})
			n += len(sp.Configs)
			bounds = append(bounds, fmt.Sprintf("%d configs to depth %d", len(sp.Configs), sp.Depth))
		}
		r.Set("configs", n)
		r.Set("depth_bound", strings.Join(bounds, "; "))
	}, func(r *eng.Run, raw json.RawMessage) { eng.ReplaySeq(r, specs(r)[0], raw) })
}
