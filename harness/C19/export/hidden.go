//go:build verif

package mfs

import (
	"sort"
	"strings"

	uio "github.com/ipfs/boxo/ipld/unixfs/io"
)

// VerifHidden renders the hidden in-memory state below this directory that
// can influence future operations: for every cached directory object the kind
// of its UnixFS directory (basic / hamt) and the sorted names held in
// entriesCache (recursively for cached directories; "f" marks a cached file).
// Read-only.
func (d *Directory) VerifHidden() string {
	d.lock.Lock()
	defer d.lock.Unlock()
	kind := "?"
	inner := d.unixfsDir
	if dd, ok := inner.(*uio.DynamicDirectory); ok {
		inner = dd.Directory
	}
	switch inner.(type) {
	case *uio.BasicDirectory:
		kind = "B"
	case *uio.HAMTDirectory:
		kind = "H"
	}
	names := make([]string, 0, len(d.entriesCache))
	for n := range d.entriesCache {
		names = append(names, n)
	}
	sort.Strings(names)
	var sb strings.Builder
	sb.WriteString(kind + "{")
	for _, n := range names {
		sb.WriteString(n)
		switch c := d.entriesCache[n].(type) {
		case *Directory:
			sb.WriteString(":" + c.VerifHidden())
		case *File:
			sb.WriteString(":f")
		}
		sb.WriteString(",")
	}
	sb.WriteString("}")
	return sb.String()
}

// VerifHasRepublisher reports whether the root was built with a publish function.
func (kr *Root) VerifHasRepublisher() bool { return kr.repub != nil }
