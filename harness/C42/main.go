//go:build verif

// C42: the delegated routing server + client apply IPIP-484 filters and record
// limits exactly (JSON and NDJSON), and signed IPNS records round-trip while
// invalid ones are rejected on PUT.
package main

import (
	"bytes"
	"context"
	"encoding/json"
	"fmt"
	"net/http"
	"net/http/httptest"
	"strings"
	"sync"
	"sync/atomic"
	"time"

	"github.com/ipfs/boxo/ipns"
	"github.com/ipfs/boxo/routing/http/client"
	"github.com/ipfs/boxo/routing/http/server"
	"github.com/ipfs/boxo/routing/http/types"
	"github.com/ipfs/boxo/routing/http/types/iter"
	"github.com/ipfs/boxo/verifshim/eng"
	"github.com/ipfs/go-cid"
	"github.com/libp2p/go-libp2p/core/crypto"
	"github.com/libp2p/go-libp2p/core/peer"
	"github.com/libp2p/go-libp2p/core/routing"
	"github.com/multiformats/go-multiaddr"
	mh "github.com/multiformats/go-multihash"
	"github.com/prometheus/client_golang/prometheus"
)

// --------------------------------------------------------------------- shapes

var protoSets = [][]string{
	nil,
	{"transport-bitswap"},
	{"transport-ipfs-gateway-http"},
	{"transport-bitswap", "transport-ipfs-gateway-http"},
	{"Transport-Bitswap"},
}

var addrSets = [][]string{
	nil,
	{"/ip4/192.0.2.1/tcp/4001"},
	{"/ip4/192.0.2.1/udp/4001/quic-v1"},
	{"/ip4/192.0.2.1/tcp/4001", "/ip4/192.0.2.1/tcp/8080/ws"},
	{"/dns4/example.com/tcp/443/https"},
	{"/ip4/192.0.2.1/tcp/4001", "/ip6/2001:db8::1/udp/4001/quic-v1", "/ip4/192.0.2.1/tcp/8080/ws", "/ip4/192.0.2.1/udp/4001/quic-v1/webtransport"},
}

type Shape struct {
	Kind byte // 'p' peer record, 'b' legacy bitswap-schema record, 'e' error result
	P, A int
}

func (s Shape) String() string {
	switch s.Kind {
	case 'e':
		return "error"
	case 'b':
		return fmt.Sprintf("bitswap-schema(addrs=%v)", addrSets[s.A])
	}
	return fmt.Sprintf("peer(protocols=%v addrs=%v)", protoSets[s.P], addrSets[s.A])
}

var (
	shapes      []Shape // stable index table
	quickShapes []int
	allShapes   []int
	fewShapes   []int // 8 representatives
	maddrs      = map[string]multiaddr.Multiaddr{}
	addrProtos  = map[string]map[string]bool{} // address -> protocol names it contains
	pids        []peer.ID
)

func initShapes() {
	for p := range protoSets {
		for a := range addrSets {
			shapes = append(shapes, Shape{'p', p, a})
		}
	}
	for _, a := range []int{0, 1, 3, 5} {
		shapes = append(shapes, Shape{'b', 1, a})
	}
	shapes = append(shapes, Shape{'e', 0, 0})
	for i, s := range shapes {
		allShapes = append(allShapes, i)
		if s.Kind == 'p' && s.P <= 3 && s.A <= 4 {
			quickShapes = append(quickShapes, i)
		}
		if s.Kind == 'b' && (s.A == 0 || s.A == 3) || s.Kind == 'e' {
			quickShapes = append(quickShapes, i)
		}
	}
	pick := func(k byte, p, a int) int {
		for i, s := range shapes {
			if s.Kind == k && s.P == p && s.A == a {
				return i
			}
		}
		panic("no such shape")
	}
	fewShapes = []int{pick('p', 0, 0), pick('p', 1, 1), pick('p', 1, 3), pick('p', 2, 2), pick('p', 3, 4), pick('p', 0, 3), pick('b', 1, 3), pick('e', 0, 0)}
	for _, as := range addrSets {
		for _, a := range as {
			m, err := multiaddr.NewMultiaddr(a)
			if err != nil {
				panic(err)
			}
			maddrs[a] = m
			ps := map[string]bool{}
			for _, p := range m.Protocols() {
				ps[p.Name] = true
			}
			addrProtos[a] = ps
		}
	}
	for i := 0; i < 40; i++ {
		seed := bytes.Repeat([]byte{byte(i + 1)}, 32)
		_, pub, err := crypto.GenerateEd25519Key(bytes.NewReader(seed))
		if err != nil {
			panic(err)
		}
		id, err := peer.IDFromPublicKey(pub)
		if err != nil {
			panic(err)
		}
		pids = append(pids, id)
	}
}

// keyOf encodes a record list in an identity multihash so that the shared fake
// router can rebuild it from the request alone.
func keyOf(list []int) mh.Multihash {
	b := []byte{0xff}
	for _, s := range list {
		b = append(b, byte(s))
	}
	h, err := mh.Sum(b, mh.IDENTITY, -1)
	if err != nil {
		panic(err)
	}
	return h
}

func listOf(h mh.Multihash) []int {
	d, err := mh.Decode(h)
	if err != nil || d.Code != mh.IDENTITY || len(d.Digest) == 0 || d.Digest[0] != 0xff {
		panic(fmt.Sprintf("harness bug: unexpected key %x", []byte(h)))
	}
	out := []int{}
	for _, b := range d.Digest[1:] {
		out = append(out, int(b))
	}
	return out
}

// ---------------------------------------------------------------- fake router

type fakeRouter struct {
	mu       sync.Mutex
	ipns     map[string][]byte
	putCalls atomic.Int64
	limitArg atomic.Int64 // number of calls that carried a non-zero limit
}

var errRouter = fmt.Errorf("router: this result failed")

func freshAddrs(a int) []types.Multiaddr {
	if addrSets[a] == nil {
		return nil
	}
	out := make([]types.Multiaddr, len(addrSets[a]))
	for i, s := range addrSets[a] {
		out[i] = types.Multiaddr{Multiaddr: maddrs[s]}
	}
	return out
}

func freshProtos(p int) []string {
	if protoSets[p] == nil {
		return nil
	}
	return append([]string{}, protoSets[p]...)
}

func (f *fakeRouter) FindProviders(ctx context.Context, c cid.Cid, limit int) (iter.ResultIter[types.Record], error) {
	list := listOf(c.Hash())
	if limit > 0 {
		f.limitArg.Add(1)
		if len(list) > limit { // a real router honours the limit it is given
			list = list[:limit]
		}
	}
	out := make([]iter.Result[types.Record], 0, len(list))
	for i, si := range list {
		s := shapes[si]
		id := pids[i%len(pids)]
		switch s.Kind {
		case 'e':
			out = append(out, iter.Result[types.Record]{Err: errRouter})
		case 'b':
			//lint:ignore SA1019 legacy schema is part of the domain
			out = append(out, iter.Result[types.Record]{Val: &types.BitswapRecord{Schema: types.SchemaBitswap, Protocol: "transport-bitswap", ID: &id, Addrs: freshAddrs(s.A)}})
		default:
			out = append(out, iter.Result[types.Record]{Val: &types.PeerRecord{Schema: types.SchemaPeer, ID: &id, Addrs: freshAddrs(s.A), Protocols: freshProtos(s.P)}})
		}
	}
	return iter.FromSlice(out), nil
}

func (f *fakeRouter) FindPeers(ctx context.Context, pid peer.ID, limit int) (iter.ResultIter[*types.PeerRecord], error) {
	list := listOf(mh.Multihash(pid))
	if limit > 0 {
		f.limitArg.Add(1)
		if len(list) > limit {
			list = list[:limit]
		}
	}
	out := make([]iter.Result[*types.PeerRecord], 0, len(list))
	for i, si := range list {
		s := shapes[si]
		id := pids[i%len(pids)]
		if s.Kind == 'e' {
			out = append(out, iter.Result[*types.PeerRecord]{Err: errRouter})
			continue
		}
		out = append(out, iter.Result[*types.PeerRecord]{Val: &types.PeerRecord{Schema: types.SchemaPeer, ID: &id, Addrs: freshAddrs(s.A), Protocols: freshProtos(s.P)}})
	}
	return iter.FromSlice(out), nil
}

func (f *fakeRouter) GetClosestPeers(ctx context.Context, key cid.Cid) (iter.ResultIter[*types.PeerRecord], error) {
	return nil, routing.ErrNotFound
}

//lint:ignore SA1019 interface requirement
func (f *fakeRouter) ProvideBitswap(ctx context.Context, req *server.BitswapWriteProvideRequest) (time.Duration, error) {
	return 0, routing.ErrNotSupported
}

func (f *fakeRouter) GetIPNS(ctx context.Context, name ipns.Name) (*ipns.Record, error) {
	f.mu.Lock()
	b, ok := f.ipns[name.String()]
	f.mu.Unlock()
	if !ok {
		return nil, routing.ErrNotFound
	}
	return ipns.UnmarshalRecord(b)
}

func (f *fakeRouter) PutIPNS(ctx context.Context, name ipns.Name, record *ipns.Record) error {
	f.putCalls.Add(1)
	b, err := ipns.MarshalRecord(record)
	if err != nil {
		return err
	}
	f.mu.Lock()
	f.ipns[name.String()] = b
	f.mu.Unlock()
	return nil
}

// ------------------------------------------------------------ reference model

type rec struct {
	ID     string
	Addrs  []string
	Protos []string
}

func (r rec) String() string { return fmt.Sprintf("{%s addrs=%v protocols=%v}", r.ID[len(r.ID)-6:], r.Addrs, r.Protos) }

func parseFilterModel(s string) []string {
	if s == "" {
		return nil
	}
	return strings.Split(strings.ToLower(s), ",") // IPIP-484: filtering is case-insensitive
}

// keep implements the IPIP-484 semantics as documented in filters.go for one
// record; ok=false means the record is omitted.
func keep(protos, addrs []string, pf, af []string) (outAddrs []string, ok bool) {
	if len(pf) == 0 && len(af) == 0 {
		return addrs, true
	}
	if len(pf) > 0 {
		allowed := false
		for _, f := range pf {
			if f == "unknown" && len(protos) == 0 {
				allowed = true
			}
			for _, p := range protos {
				if strings.ToLower(p) == f {
					allowed = true
				}
			}
		}
		if !allowed {
			return nil, false
		}
	}
	if len(af) == 0 {
		return addrs, true
	}
	var pos, neg []string
	unknown := false
	for _, f := range af {
		if f == "unknown" {
			unknown = true
		}
		if strings.HasPrefix(f, "!") {
			neg = append(neg, f[1:])
		} else {
			pos = append(pos, f)
		}
	}
	if len(addrs) == 0 {
		// providers without (known) addresses survive only when "unknown" is asked for
		return addrs, unknown
	}
	for _, a := range addrs {
		has := addrProtos[a]
		bad := false
		for _, n := range neg {
			if has[n] {
				bad = true
			}
		}
		if bad {
			continue
		}
		good := len(pos) == 0
		for _, p := range pos {
			if has[p] {
				good = true
			}
		}
		if good {
			outAddrs = append(outAddrs, a)
		}
	}
	return outAddrs, len(outAddrs) > 0
}

// model returns the records a client must receive. stopAtErr selects the
// second admissible reading for lists with a router error.
func model(list []int, pf, af []string, limit int, stopAtErr bool) []rec {
	out := []rec{}
	for i, si := range list {
		s := shapes[si]
		if s.Kind == 'e' {
			if stopAtErr {
				break
			}
			continue
		}
		protos := protoSets[s.P]
		if s.Kind == 'b' {
			protos = []string{"transport-bitswap"}
		}
		addrs, ok := keep(protos, addrSets[s.A], pf, af)
		if !ok {
			continue
		}
		if limit > 0 && len(out) >= limit {
			break
		}
		out = append(out, rec{ID: pids[i%len(pids)].String(), Addrs: addrs, Protos: protos})
	}
	return out
}

func diffRecs(want, got []rec) (class, detail string) {
	for i := 0; i < len(want) || i < len(got); i++ {
		switch {
		case i >= len(got):
			return "missing-record", fmt.Sprintf("record %d %v is missing", i, want[i])
		case i >= len(want):
			return "extra-record", fmt.Sprintf("unexpected record %d %v", i, got[i])
		case want[i].ID != got[i].ID:
			// decide whether got[i] is an intruder or want[i] was skipped
			for _, w := range want[i+1:] {
				if w.ID == got[i].ID {
					return "missing-record", fmt.Sprintf("record %d %v is missing (got %v instead)", i, want[i], got[i])
				}
			}
			return "extra-record", fmt.Sprintf("record %d is %v, want %v", i, got[i], want[i])
		case strings.Join(want[i].Addrs, " ") != strings.Join(got[i].Addrs, " "):
			return "wrong-addrs", fmt.Sprintf("record %d has addrs %v, want %v", i, got[i].Addrs, want[i].Addrs)
		case strings.Join(want[i].Protos, " ") != strings.Join(got[i].Protos, " "):
			return "wrong-protocols", fmt.Sprintf("record %d has protocols %v, want %v", i, got[i].Protos, want[i].Protos)
		}
	}
	return "", ""
}

// --------------------------------------------------------------------- wiring

type inproc struct{ h http.Handler }

func (p inproc) Do(req *http.Request) (*http.Response, error) {
	rec := httptest.NewRecorder()
	p.h.ServeHTTP(rec, req)
	return rec.Result(), nil
}

type Case struct {
	Endpoint string `json:"endpoint"` // providers | peers
	List     []int  `json:"list"`     // shape indices
	PF       string `json:"filter_protocols"`
	AF       string `json:"filter_addrs"`
	Limit    int    `json:"limit"` // -1: server defaults
	Mode     string `json:"mode"`  // json | ndjson
	Local    bool   `json:"client_side_filtering"`
	TCP      bool   `json:"tcp"`
}

const defaultPF = "<client default>"

type world struct {
	rt       *fakeRouter
	mu       sync.Mutex
	handlers map[string]http.Handler
	clients  map[string]*client.Client
	servers  map[string]*httptest.Server
}

func newWorld() *world {
	return &world{rt: &fakeRouter{ipns: map[string][]byte{}}, handlers: map[string]http.Handler{}, clients: map[string]*client.Client{}, servers: map[string]*httptest.Server{}}
}

func (w *world) handler(mode string, limit int) http.Handler {
	k := fmt.Sprintf("%s/%d", mode, limit)
	if h, ok := w.handlers[k]; ok {
		return h
	}
	opts := []server.Option{server.WithPrometheusRegistry(prometheus.NewRegistry())}
	if mode == "json" {
		opts = append(opts, server.WithStreamingResultsDisabled())
		if limit >= 0 {
			opts = append(opts, server.WithRecordsLimit(limit))
		}
	} else if limit >= 0 {
		opts = append(opts, server.WithStreamingRecordsLimit(limit))
	}
	h := server.Handler(w.rt, opts...)
	w.handlers[k] = h
	return h
}

func splitFilter(s string) []string {
	if s == "" {
		return nil
	}
	return strings.Split(s, ",") // fresh slice: the client options sort in place
}

func (w *world) client(c *Case) *client.Client {
	k := fmt.Sprintf("%s|%s|%d|%s|%v|%v", c.PF, c.AF, c.Limit, c.Mode, c.Local, c.TCP)
	w.mu.Lock()
	defer w.mu.Unlock()
	if cl, ok := w.clients[k]; ok {
		return cl
	}
	h := w.handler(c.Mode, c.Limit)
	opts := []client.Option{client.WithDisabledLocalFiltering(!c.Local), client.WithAddrFilter(splitFilter(c.AF))}
	if c.PF != defaultPF {
		opts = append(opts, client.WithProtocolFilter(splitFilter(c.PF)))
	}
	base := "http://verif.invalid"
	if c.TCP {
		sk := fmt.Sprintf("%s/%d", c.Mode, c.Limit)
		srv, ok := w.servers[sk]
		if !ok {
			srv = httptest.NewServer(h)
			w.servers[sk] = srv
		}
		base = srv.URL
	} else {
		opts = append(opts, client.WithHTTPClient(inproc{h}))
	}
	cl, err := client.New(base, opts...)
	if err != nil {
		panic(err)
	}
	w.clients[k] = cl
	return cl
}

func (w *world) close() {
	for _, s := range w.servers {
		s.Close()
	}
}

func toRec(v types.Record) (rec, bool) {
	switch r := v.(type) {
	case *types.PeerRecord:
		out := rec{Protos: r.Protocols}
		if r.ID != nil {
			out.ID = r.ID.String()
		}
		for _, a := range r.Addrs {
			out.Addrs = append(out.Addrs, a.String())
		}
		return out, true
	//lint:ignore SA1019 legacy schema
	case *types.BitswapRecord:
		out := rec{Protos: []string{r.Protocol}}
		if r.ID != nil {
			out.ID = r.ID.String()
		}
		for _, a := range r.Addrs {
			out.Addrs = append(out.Addrs, a.String())
		}
		return out, true
	}
	return rec{}, false
}

func (w *world) fetch(c *Case) (got []rec, err error) {
	cl := w.client(c)
	ctx := context.Background()
	if c.Endpoint == "providers" {
		it, err := cl.FindProviders(ctx, cid.NewCidV1(cid.Raw, keyOf(c.List)))
		if err != nil {
			return nil, err
		}
		defer it.Close()
		for it.Next() {
			res := it.Val()
			if res.Err != nil {
				return got, fmt.Errorf("result error: %w", res.Err)
			}
			r, ok := toRec(res.Val)
			if !ok {
				return got, fmt.Errorf("unexpected record type %T", res.Val)
			}
			got = append(got, r)
		}
		return got, nil
	}
	it, err := cl.FindPeers(ctx, peer.ID(keyOf(c.List)))
	if err != nil {
		return nil, err
	}
	defer it.Close()
	for it.Next() {
		res := it.Val()
		if res.Err != nil {
			return got, fmt.Errorf("result error: %w", res.Err)
		}
		if res.Val == nil {
			return got, fmt.Errorf("nil peer record")
		}
		r, _ := toRec(res.Val)
		got = append(got, r)
	}
	return got, nil
}

func hasUpper(s string) string { return fmt.Sprint(strings.ToLower(s) != s) }

func describe(list []int) string {
	parts := []string{}
	for _, s := range list {
		parts = append(parts, shapes[s].String())
	}
	return "[" + strings.Join(parts, ", ") + "]"
}

type stats struct {
	requests, nonEmpty, capped, addrTrimmed, dropped, withErr, tcp atomic.Int64
}

var st stats

// check runs one case and judges it.
func (w *world) check(c *Case, oc *string) *eng.Violation {
	pfs := c.PF
	if pfs == defaultPF {
		pfs = strings.Join(client.DefaultProtocolFilter, ",")
	}
	pf, af := parseFilterModel(pfs), parseFilterModel(c.AF)
	limit := c.Limit
	if limit < 0 { // server defaults
		limit = server.DefaultStreamingRecordsLimit
		if c.Mode == "json" {
			limit = server.DefaultRecordsLimit
		}
	}
	hasErr := false
	for _, s := range c.List {
		if shapes[s].Kind == 'e' {
			hasErr = true
		}
	}
	want := model(c.List, pf, af, limit, false)
	var got []rec
	var err error
	pv := eng.Guard(c.Endpoint, func() { got, err = w.fetch(c) })
	st.requests.Add(1)
	feats := []string{"endpoint", c.Endpoint, "mode", c.Mode, "client_side_filtering", fmt.Sprint(c.Local),
		"addr_filter_has_upper_case", hasUpper(c.AF), "protocol_filter_has_upper_case", hasUpper(pfs)}
	fail := func(sym, det string, extra ...string) *eng.Violation {
		v := eng.V(sym, c.Endpoint, fmt.Sprintf("records %s, filter-protocols=%q filter-addrs=%q limit=%d mode=%s client-side-filtering=%v: %s\n  want %v\n  got  %v (err=%v)", describe(c.List), c.PF, c.AF, c.Limit, c.Mode, c.Local, det, want, got, err), append(feats, extra...)...)
		cc := *c
		v.Replay = cc
		return v
	}
	if pv != nil {
		pv.Features = map[string]string{"endpoint": c.Endpoint, "mode": c.Mode}
		cc := *c
		pv.Replay = cc
		return pv
	}
	if hasErr {
		st.withErr.Add(1)
		// the statement does not say whether a failed result ends the response
		if err != nil {
			return nil
		}
		if cl, _ := diffRecs(want, got); cl == "" {
			return nil
		}
		alt := model(c.List, pf, af, limit, true)
		if cl, det := diffRecs(alt, got); cl != "" {
			return fail("wrong-records", det, "diff", cl, "router_error_in_list", "true")
		}
		return nil
	}
	if err != nil {
		return fail("request-failed", err.Error())
	}
	if cl, det := diffRecs(want, got); cl != "" {
		return fail("wrong-records", det, "diff", cl)
	}
	if len(want) > 0 {
		st.nonEmpty.Add(1)
	}
	full := model(c.List, pf, af, 0, false)
	if len(full) > len(want) {
		st.capped.Add(1)
	}
	if len(full) < len(c.List) {
		st.dropped.Add(1)
	}
	trimmed := 0
	for _, r := range full {
		for i, si := range c.List {
			if pids[i%len(pids)].String() == r.ID && len(r.Addrs) < len(addrSets[shapes[si].A]) {
				trimmed++
			}
		}
	}
	st.addrTrimmed.Add(int64(trimmed))
	if oc != nil {
		*oc = fmt.Sprintf("%s %s: sent=%d kept=%d returned=%d addr-trimmed=%d", c.Endpoint, c.Mode, len(c.List), len(full), len(want), trimmed)
	}
	return nil
}

// ------------------------------------------------------------------- domains

var protoFilters = []string{"", "unknown", "transport-bitswap", "transport-bitswap,unknown", "TRANSPORT-BITSWAP", "transport-ipfs-gateway-http", defaultPF}
var addrFilters = []string{"", "tcp", "!tcp", "unknown", "tcp,!ws", "!tcp,unknown", "quic-v1", "https,webtransport", "no-such-transport"}
var addrFiltersUpper = []string{"TCP", "!WS"}

func lists(alpha []int, n int) [][]int {
	out := [][]int{{}}
	for d := 0; d < n; d++ {
		var nx [][]int
		for _, l := range out {
			for _, a := range alpha {
				nx = append(nx, append(append(make([]int, 0, len(l)+1), l...), a))
			}
		}
		out = nx
	}
	return out
}

func listsUpTo(alpha []int, n int) [][]int {
	var out [][]int
	for d := 0; d <= n; d++ {
		out = append(out, lists(alpha, d)...)
	}
	return out
}

func peersOK(list []int) bool {
	for _, s := range list {
		if shapes[s].Kind == 'b' {
			return false
		}
	}
	return true
}

func sweep(r *eng.Run, w *world, name string, ls [][]int, pfs, afs []string, limits []int, tcp bool) {
	var n atomic.Int64
	t0 := time.Now()
	var omu sync.Mutex
	outcomes := map[string]bool{}
	eng.ParFor(len(ls)*len(pfs), func(i int) {
		if r.Expired() {
			return
		}
		l, pf := ls[i/len(pfs)], pfs[i%len(pfs)]
		local := map[string]bool{}
		for _, ep := range []string{"providers", "peers"} {
			if ep == "peers" && !peersOK(l) {
				continue
			}
			for _, af := range afs {
				for _, lim := range limits {
					for _, mode := range []string{"json", "ndjson"} {
						for _, lf := range []bool{false, true} {
							c := &Case{Endpoint: ep, List: l, PF: pf, AF: af, Limit: lim, Mode: mode, Local: lf, TCP: tcp}
							var oc string
							if v := w.check(c, &oc); v != nil {
								r.Report(v)
							}
							local[oc] = true
							n.Add(1)
						}
					}
				}
			}
		}
		if len(l) >= 1 {
			r.Distinct(fmt.Sprintf("%s|%v|%s", name, l, pf))
		}
		omu.Lock()
		for k := range local {
			outcomes[k] = true
		}
		omu.Unlock()
	})
	for k := range outcomes {
		r.Outcome(k)
	}
	r.Eval(int(n.Load()))
	r.Set("sweep_"+name, map[string]any{"lists": len(ls), "protocol_filters": len(pfs), "addr_filters": len(afs), "limits": limits, "requests": n.Load(), "wall_s": int(time.Since(t0).Seconds())})
	if r.Expired() {
		r.Incomplete("budget expired in sweep " + name)
	}
}

func longLists() [][]int {
	mk := func(f func(i int) int) []int {
		l := make([]int, 30)
		for i := range l {
			l[i] = f(i)
		}
		return l
	}
	nonErr := []int{}
	for i, s := range shapes {
		if s.Kind == 'p' {
			nonErr = append(nonErr, i)
		}
	}
	return [][]int{
		mk(func(i int) int { return nonErr[i%len(nonErr)] }),
		mk(func(i int) int { return nonErr[(i*7+3)%len(nonErr)] }),
		mk(func(i int) int { return fewShapes[1] }), // 30 identical bitswap/tcp peers: nothing filtered by the usual filters
		mk(func(i int) int { return fewShapes[i%2*3] }),
	}
}

func body(r *eng.Run) {
	initShapes()
	w := newWorld()
	defer w.close()
	th := r.Thorough()
	r.Rule("every record list up to the length bound over the shape table x protocol filter x address filter x limit x {JSON, NDJSON} x client-side filtering {off, on} x {/providers, /peers}; one case = one request of the real client against the real handler, compared with the reference IPIP-484 filter + cap; a list is non-trivial when it has >= 1 record")
	r.Assume("go-multiaddr protocol table, encoding/json, net/http/httptest, gorilla/mux and the metrics middleware are correct")
	r.Assume("lists containing a router error result are accepted under either reading (error skipped / error ends the response)")
	r.Assume("boxo/ipns Unmarshal/Validate decide which IPNS records are valid (C25-C28)")
	r.Set("shapes_total", len(shapes))
	r.Set("shapes_quick", len(quickShapes))
	afs := append(append([]string{}, addrFilters...), addrFiltersUpper...)
	// reduced filter families for the longer lists (the effect of a filter on one
	// record is covered exhaustively by the single-record sweep)
	pf4 := []string{"", "transport-bitswap,unknown", "TRANSPORT-BITSWAP", defaultPF}
	af5 := []string{"", "tcp", "!tcp,unknown", "tcp,!ws", "TCP"}
	pf3 := []string{"", "transport-bitswap", "unknown"}
	af4 := []string{"", "tcp,!ws", "!tcp,unknown", "quic-v1"}
	limits := []int{0, 1, 2, 40}
	if !th {
		sweep(r, w, "len0to1_all_shapes", listsUpTo(allShapes, 1), protoFilters, afs, []int{0, 1}, false)
		sweep(r, w, "len2", lists(quickShapes, 2), pf4, af5, []int{0, 1, 2}, false)
		sweep(r, w, "len3_few_shapes", lists(fewShapes, 3), pf3, af4, []int{1, 2}, false)
	} else {
		sweep(r, w, "len0to2_all_shapes", listsUpTo(allShapes, 2), protoFilters, afs, limits, false)
		sweep(r, w, "len3", lists(quickShapes, 3), pf3, af4, []int{1, 2}, false)
		sweep(r, w, "len4_few_shapes", lists(fewShapes, 4), pf3, af4, []int{0, 2, 3}, false)
	}
	sweep(r, w, "len30", longLists(), protoFilters, afs, []int{-1, 0, 1, 19, 20, 21, 29, 30, 31, 40}, false)
	sweep(r, w, "loopback_tcp", listsUpTo(fewShapes, eng.Pick(r, 1, 2)), pf4, af5, []int{0, 1}, true)
	ipnsChecks(r, w)
	r.Set("requests", st.requests.Load())
	r.Set("responses_non_empty", st.nonEmpty.Load())
	r.Set("responses_capped_by_limit", st.capped.Load())
	r.Set("responses_with_records_dropped_by_filter", st.dropped.Load())
	r.Set("records_with_trimmed_address_list", st.addrTrimmed.Load())
	r.Set("requests_with_router_error_in_list", st.withErr.Load())
	r.Set("router_calls_with_nonzero_limit", w.rt.limitArg.Load())
	for _, c := range []Case{{Endpoint: "providers", List: fewShapes[1:4], PF: "transport-bitswap", AF: "tcp,!ws", Limit: 2, Mode: "ndjson", Local: true}} {
		r.Sample(map[string]any{"case": c, "records": describe(c.List)})
	}
}

func replay(r *eng.Run, raw json.RawMessage) {
	initShapes()
	w := newWorld()
	defer w.close()
	var probe struct {
		Kind string `json:"kind"`
	}
	json.Unmarshal(raw, &probe)
	r.Eval(1)
	if probe.Kind == "ipns" {
		ipnsReplay(r, w, raw)
		return
	}
	var c Case
	if err := json.Unmarshal(raw, &c); err != nil {
		fmt.Println("bad replay:", err)
		return
	}
	fmt.Printf("  case: %s records=%s filter-protocols=%q filter-addrs=%q limit=%d mode=%s client-side-filtering=%v tcp=%v\n", c.Endpoint, describe(c.List), c.PF, c.AF, c.Limit, c.Mode, c.Local, c.TCP)
	if v := w.check(&c, nil); v != nil {
		r.Report(v)
	} else {
		fmt.Println("  replay: no violation")
	}
}

func main() { eng.Main("C42", "exploration", body, replay) }
