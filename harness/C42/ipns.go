//go:build verif

package main

import (
	"bytes"
	"context"
	"crypto/rand"
	"encoding/hex"
	"encoding/json"
	"fmt"
	"net/http"
	"net/http/httptest"
	"sync/atomic"
	"time"

	"github.com/ipfs/boxo/ipns"
	"github.com/ipfs/boxo/path"
	"github.com/ipfs/boxo/routing/http/client"
	"github.com/ipfs/boxo/routing/http/server"
	"github.com/ipfs/boxo/verifshim/eng"
	"github.com/libp2p/go-libp2p/core/crypto"
	"github.com/libp2p/go-libp2p/core/peer"
	"github.com/prometheus/client_golang/prometheus"
)

const ctIPNS = "application/vnd.ipfs.ipns-record"

type IPNSCase struct {
	Kind    string `json:"kind"` // "ipns"
	What    string `json:"what"`
	KeyType string `json:"key_type"`
	Name    string `json:"name"`
	CT      string `json:"content_type"`
	Hex     string `json:"record_hex"`
}

type ipnsKey struct {
	typ  string
	sk   crypto.PrivKey
	name ipns.Name
}

func genKeys() []ipnsKey {
	out := []ipnsKey{}
	for _, kt := range []struct {
		name string
		typ  int
		bits int
	}{{"ed25519", crypto.Ed25519, 0}, {"rsa", crypto.RSA, 2048}, {"secp256k1", crypto.Secp256k1, 0}, {"ecdsa", crypto.ECDSA, 0}} {
		// the key bytes decide nothing: every verdict below is relative to the key
		sk, pub, err := crypto.GenerateKeyPairWithReader(kt.typ, kt.bits, rand.Reader)
		if err != nil {
			panic(err)
		}
		pid, err := peer.IDFromPublicKey(pub)
		if err != nil {
			panic(err)
		}
		out = append(out, ipnsKey{kt.name, sk, ipns.NameFromPeer(pid)})
	}
	return out
}

// valid is the reference judgement: the bytes are a record that validates for name.
func validFor(raw []byte, name ipns.Name) (canon []byte, ok bool) {
	rec, err := ipns.UnmarshalRecord(raw)
	if err != nil {
		return nil, false
	}
	if err := ipns.ValidateWithName(rec, name); err != nil {
		return nil, false
	}
	b, err := ipns.MarshalRecord(rec)
	if err != nil {
		return nil, false
	}
	return b, true
}

type ipnsStats struct {
	puts, accepted, rejected, roundTrips atomic.Int64
}

var ist ipnsStats

// putRaw PUTs arbitrary bytes on a fresh router+handler and judges the outcome.
// ipnsSrv is a router+handler pair reused by the sequential cases of one task
// (creating a handler registers metrics and is comparatively slow).
type ipnsSrv struct {
	rt *fakeRouter
	h  http.Handler
}

func newIPNSSrv() *ipnsSrv {
	rt := &fakeRouter{ipns: map[string][]byte{}}
	return &ipnsSrv{rt, server.Handler(rt, server.WithPrometheusRegistry(prometheus.NewRegistry()))}
}

func putRaw(c *IPNSCase, sv *ipnsSrv) *eng.Violation {
	raw, err := hex.DecodeString(c.Hex)
	if err != nil {
		panic(err)
	}
	name, err := ipns.NameFromString(c.Name)
	if err != nil {
		panic(err)
	}
	if sv == nil {
		sv = newIPNSSrv()
	}
	rt, h := sv.rt, sv.h
	rt.ipns = map[string][]byte{} // fresh state for this case
	rt.putCalls.Store(0)
	req := httptest.NewRequest(http.MethodPut, "http://verif.invalid/routing/v1/ipns/"+name.String(), bytes.NewReader(raw))
	if c.CT != "" {
		req.Header.Set("Content-Type", c.CT)
	}
	w := httptest.NewRecorder()
	var pv *eng.Violation
	if pv = eng.Guard("PutIPNS", func() { h.ServeHTTP(w, req) }); pv != nil {
		pv.Features = map[string]string{"endpoint": "ipns"}
		pv.Replay = *c
		return pv
	}
	ist.puts.Add(1)
	accepted := w.Code == http.StatusOK
	canon, ok := validFor(raw, name)
	ok = ok && c.CT == ctIPNS
	fail := func(sym, det string) *eng.Violation {
		v := eng.V(sym, "PutIPNS", fmt.Sprintf("%s (%s key, %d bytes, content-type %q): %s; HTTP status %d", c.What, c.KeyType, len(raw), c.CT, det, w.Code), "endpoint", "ipns", "key_type", c.KeyType)
		v.Replay = *c
		return v
	}
	stored := rt.ipns[name.String()]
	switch {
	case accepted && !ok:
		return fail("invalid-ipns-record-accepted", "the record does not validate for the name but PUT succeeded")
	case !accepted && ok:
		return fail("valid-ipns-record-rejected", "the record validates for the name but PUT failed: "+w.Body.String())
	case !accepted:
		ist.rejected.Add(1)
		if rt.putCalls.Load() != 0 || len(rt.ipns) != 0 {
			return fail("rejected-record-reached-router", "PUT failed but the router's PutIPNS was called")
		}
	default:
		ist.accepted.Add(1)
		if !bytes.Equal(stored, canon) {
			return fail("ipns-record-altered", fmt.Sprintf("router received %x, want %x", stored, canon))
		}
		cl, err := client.New("http://verif.invalid", client.WithHTTPClient(inproc{h}))
		if err != nil {
			panic(err)
		}
		got, err := cl.GetIPNS(context.Background(), name)
		if err != nil {
			return fail("ipns-get-failed", "GET after an accepted PUT failed: "+err.Error())
		}
		gb, _ := ipns.MarshalRecord(got)
		if !bytes.Equal(gb, canon) {
			return fail("ipns-record-altered", fmt.Sprintf("GET returned %x, want %x", gb, canon))
		}
	}
	return nil
}

func ipnsChecks(r *eng.Run, w *world) {
	keys := genKeys()
	ctx := context.Background()
	eol := time.Date(2099, 1, 1, 0, 0, 0, 0, time.UTC) // far future: replays stay valid
	pA, _ := path.NewPath("/ipfs/bafkreifzjut3te2nhyekklss27nh3k72ysco7y32koao5eei66wof36n5e")
	pB, _ := path.NewPath("/ipns/" + keys[0].name.String() + "/a/b")
	type variant struct {
		name string
		opts []ipns.Option
	}
	variants := []variant{{"default", nil}, {"no-v1", []ipns.Option{ipns.WithV1Compatibility(false)}}, {"embedded-key", []ipns.Option{ipns.WithPublicKey(true)}}, {"metadata", []ipns.Option{ipns.WithMetadata(map[string]any{"k": "v", "n": int64(7)})}}}
	seqs := []uint64{0, 1, 1 << 63}
	n := 0
	base := map[string][]byte{}
	for _, k := range keys {
		h := w.handler("json", 0)
		cl, err := client.New("http://verif.invalid", client.WithHTTPClient(inproc{h}))
		if err != nil {
			panic(err)
		}
		for _, v := range variants {
			for _, seq := range seqs {
				for pi, p := range []path.Path{pA, pB} {
					rec, err := ipns.NewRecord(k.sk, p, seq, eol, time.Duration(seq%3)*time.Minute, v.opts...)
					if err != nil {
						panic(err)
					}
					raw, _ := ipns.MarshalRecord(rec)
					n++
					ist.roundTrips.Add(1)
					c := IPNSCase{Kind: "ipns", What: fmt.Sprintf("client round trip (%s, seq %d, path %d)", v.name, seq, pi), KeyType: k.typ, Name: k.name.String(), CT: ctIPNS, Hex: hex.EncodeToString(raw)}
					rep := func(sym, det string) {
						vv := eng.V(sym, "PutIPNS", c.What+" with a "+k.typ+" key: "+det, "endpoint", "ipns", "key_type", k.typ)
						vv.Replay = c
						r.Report(vv)
					}
					if err := cl.PutIPNS(ctx, k.name, rec); err != nil {
						rep("valid-ipns-record-rejected", "client.PutIPNS failed: "+err.Error())
						continue
					}
					got, err := cl.GetIPNS(ctx, k.name)
					if err != nil {
						rep("ipns-get-failed", "client.GetIPNS failed: "+err.Error())
						continue
					}
					gb, _ := ipns.MarshalRecord(got)
					if !bytes.Equal(gb, raw) {
						rep("ipns-record-altered", fmt.Sprintf("GET returned %x, PUT %x", gb, raw))
					}
					r.Distinct("ipns-rt|" + k.typ + v.name + fmt.Sprint(seq, pi))
					if v.name == "default" && seq == 1 && pi == 0 {
						base[k.typ] = raw
					}
				}
			}
		}
	}
	r.Eval(n)

	// PUT of arbitrary bytes
	var cases []IPNSCase
	add := func(c IPNSCase) { c.Kind = "ipns"; cases = append(cases, c) }
	for ki, k := range keys {
		raw := base[k.typ]
		hx := hex.EncodeToString(raw)
		other := keys[(ki+1)%len(keys)]
		add(IPNSCase{What: "unmodified record", KeyType: k.typ, Name: k.name.String(), CT: ctIPNS, Hex: hx})
		add(IPNSCase{What: "record PUT under another key's name", KeyType: k.typ, Name: other.name.String(), CT: ctIPNS, Hex: hx})
		add(IPNSCase{What: "valid record, content-type missing", KeyType: k.typ, Name: k.name.String(), CT: "", Hex: hx})
		add(IPNSCase{What: "valid record, content-type application/json", KeyType: k.typ, Name: k.name.String(), CT: "application/json", Hex: hx})
		add(IPNSCase{What: "empty body", KeyType: k.typ, Name: k.name.String(), CT: ctIPNS, Hex: ""})
		// oversize: an unknown length-delimited protobuf field pads the record beyond MaxRecordSize
		for _, pad := range []int{ipns.MaxRecordSize - len(raw) - 4, ipns.MaxRecordSize - len(raw) - 3, ipns.MaxRecordSize - len(raw), ipns.MaxRecordSize} {
			p := append([]byte{}, raw...)
			p = append(p, 0xfa, 0x01) // field 31, wire type 2
			p = append(p, byte(pad&0x7f|0x80), byte(pad>>7))
			p = append(p, bytes.Repeat([]byte{0x41}, pad)...)
			add(IPNSCase{What: fmt.Sprintf("record padded with an unknown field to %d bytes", len(p)), KeyType: k.typ, Name: k.name.String(), CT: ctIPNS, Hex: hex.EncodeToString(p)})
		}
	}
	eng.ParFor(len(cases), func(i int) {
		if v := putRaw(&cases[i], nil); v != nil {
			r.Report(v)
		}
		r.Outcome("ipns " + cases[i].What[:min(12, len(cases[i].What))])
	})
	r.Eval(len(cases))

	// every single-byte substitution / truncation
	type job struct {
		k   int
		off int
	}
	var jobs []job
	for ki, k := range keys {
		for off := range base[k.typ] {
			jobs = append(jobs, job{ki, off})
		}
	}
	var muts atomic.Int64
	eng.ParFor(len(jobs), func(j int) {
		if r.Expired() {
			return
		}
		k := keys[jobs[j].k]
		raw := base[k.typ]
		off := jobs[j].off
		vals := []int{}
		if r.Thorough() || k.typ == "ed25519" {
			for v := 0; v < 256; v++ {
				vals = append(vals, v)
			}
		} else {
			o := int(raw[off])
			vals = []int{o ^ 1, o ^ 0x80, 0x00, 0xff, (o + 1) & 0xff}
		}
		m := append([]byte{}, raw...)
		sv := newIPNSSrv()
		for _, v := range vals {
			if byte(v) == raw[off] {
				continue
			}
			m[off] = byte(v)
			c := IPNSCase{Kind: "ipns", What: fmt.Sprintf("byte %d := %02x", off, v), KeyType: k.typ, Name: k.name.String(), CT: ctIPNS, Hex: hex.EncodeToString(m)}
			if vv := putRaw(&c, sv); vv != nil {
				r.Report(vv)
			}
			muts.Add(1)
		}
		c := IPNSCase{Kind: "ipns", What: fmt.Sprintf("truncated to %d bytes", off), KeyType: k.typ, Name: k.name.String(), CT: ctIPNS, Hex: hex.EncodeToString(raw[:off])}
		if vv := putRaw(&c, sv); vv != nil {
			r.Report(vv)
		}
		muts.Add(1)
		r.Distinct(fmt.Sprintf("ipns-mut|%s|%d", k.typ, off))
	})
	r.Eval(int(muts.Load()))
	if r.Expired() {
		r.Incomplete("budget expired during IPNS record mutation")
	}
	sizes := map[string]int{}
	for k, b := range base {
		sizes[k] = len(b)
	}
	r.Set("ipns_base_record_sizes", sizes)
	r.Set("ipns_client_round_trips", ist.roundTrips.Load())
	r.Set("ipns_raw_puts", ist.puts.Load())
	r.Set("ipns_raw_puts_accepted", ist.accepted.Load())
	r.Set("ipns_raw_puts_rejected", ist.rejected.Load())
	r.Outcome(fmt.Sprintf("ipns accepted>0=%v rejected>0=%v", ist.accepted.Load() > 0, ist.rejected.Load() > 0))
}

func ipnsReplay(r *eng.Run, w *world, raw json.RawMessage) {
	var c IPNSCase
	if err := json.Unmarshal(raw, &c); err != nil {
		fmt.Println("bad replay:", err)
		return
	}
	fmt.Printf("  ipns case: %s, %s key, name %s, content-type %q, %d hex chars\n", c.What, c.KeyType, c.Name, c.CT, len(c.Hex))
	if v := putRaw(&c, nil); v != nil {
		r.Report(v)
	} else {
		fmt.Println("  replay: no violation")
	}
}
