//go:build verif

package main

import (
	"context"
	"encoding/json"
	"errors"
	"fmt"
	"sort"
	"strconv"
	"strings"
	"time"

	"github.com/ipfs/boxo/peering"
	"github.com/ipfs/boxo/verifshim/eng"
	"github.com/ipfs/boxo/verifshim/vexp"
	"github.com/ipfs/boxo/verifshim/vsched"
	"github.com/ipfs/boxo/verifshim/vsync"
	"github.com/libp2p/go-libp2p/core/connmgr"
	"github.com/libp2p/go-libp2p/core/host"
	"github.com/libp2p/go-libp2p/core/network"
	"github.com/libp2p/go-libp2p/core/peer"
	ma "github.com/multiformats/go-multiaddr"
)

// ---------------------------------------------------------------------------
// fixed pools

var pids = []peer.ID{"verif-peer-A", "verif-peer-B"}

// every AddPeer call of a script uses its own address ("tag"), so that a dial
// can be attributed to the AddPeer incarnation it belongs to.
var addrs []ma.Multiaddr

func init() {
	for i := 0; i < 8; i++ {
		a, err := ma.NewMultiaddr(fmt.Sprintf("/ip4/10.0.0.%d/tcp/4001", i+1))
		if err != nil {
			panic(err)
		}
		addrs = append(addrs, a)
	}
}

func pidx(p peer.ID) int {
	for i, q := range pids {
		if p == q {
			return i
		}
	}
	return -1
}

func tagOf(as []ma.Multiaddr) int {
	if len(as) != 1 {
		return -1
	}
	for i, a := range addrs {
		if a.Equal(as[0]) {
			return i
		}
	}
	return -1
}

// ---------------------------------------------------------------------------
// observation log

type ev struct {
	kind string // add-start add-ret remove-start remove-ret start-start start-ret stop-start stop-ret conn disc dial dial-ret cq
	peer int
	tag  int
	thr  int           // thread that logged the event
	nthr int           // vsched.ThreadCount() at the event
	t    time.Duration // virtual time since the start of the execution
	res  string        // dial-ret: ok|fail|flap|ctx ; start-ret: error text ; cq: connected|not
	ctx  bool          // dial: ctx already cancelled when Connect was entered
	tm   any           // dial: the handler's reconnectTimer at the time of the dial
	snap map[int]any   // stop-start / remove-start: tag -> handler's reconnectTimer when the call was made
}

type script struct {
	name     string
	connInit []int      // peers connected at construction
	pre      []string   // actions run sequentially by thread 0 before the drivers start
	threads  [][]string // driver threads
	dial     []string   // dial outcomes, default first: fail | ok | flap
	dialCost int        // deviation cost of a non-default dial outcome
	idle     int        // MaxIdleFires
	delta    int        // BoundDelta
	unlock   bool       // lock releases are scheduling points too (vsched.Config.UnlockPoints): exposes windows between a
	// critical section and a following un-instrumented operation such as a context cancel
}

type endSnap struct {
	state     peering.State
	connected map[int]bool
	timer     map[int]any // tag -> reconnectTimer (nil interface if nil)
	armed     map[int]bool
	remaining map[int]time.Duration
	nextDelay map[int]time.Duration
	allArmed  []time.Duration
}

type exec struct {
	sc       *script
	log      []ev
	ps       *peering.PeeringService
	net      *fakeNet
	handlers map[int]any // tag -> *peerHandler (opaque)
	end      *endSnap
	mid      []*eng.Violation // violations found by "check" actions
	seen     map[int][]obs    // tag -> history of the handler's reconnectTimer pointer, sampled at every logged event
	start    time.Time
}

type obs struct {
	pos int // log position at which the value was first seen
	tm  any
}

func (x *exec) rec(e ev) int {
	for tag, h := range x.handlers {
		if h == nil {
			continue
		}
		tm, _ := peering.VerifHandlerTimer(h)
		if l := x.seen[tag]; len(l) == 0 || l[len(l)-1].tm != tm {
			x.seen[tag] = append(l, obs{len(x.log), tm})
		}
	}
	e.thr = vsched.CurrentThread()
	e.nthr = vsched.ThreadCount()
	e.t = vsched.Now().Sub(x.start)
	x.log = append(x.log, e)
	return len(x.log) - 1
}

// ---------------------------------------------------------------------------
// fakes

type fakeConnMgr struct {
	connmgr.NullConnMgr
	prot map[peer.ID]int
}

func (c *fakeConnMgr) Protect(p peer.ID, tag string) { c.prot[p]++ }
func (c *fakeConnMgr) Unprotect(p peer.ID, tag string) bool {
	c.prot[p]--
	return false
}

type fakeConn struct {
	network.Conn
	p peer.ID
}

func (c *fakeConn) RemotePeer() peer.ID { return c.p }

// fakeNet mimics the swarm: the notifiee list is guarded by a RWMutex (read-
// locked while notifications are delivered, so StopNotify waits for in-flight
// notifications as in the real swarm); the connection state changes before the
// notification is delivered. Readers of Connectedness are not synchronised
// with events.
type fakeNet struct {
	network.Network
	x         *exec
	evLk      vsync.Mutex // one connection event (state change + its notifications) at a time: Connected is always delivered before the Disconnected of the same connection
	mu        vsync.RWMutex
	notifiees []network.Notifiee
	conn      map[peer.ID]bool
}

func (n *fakeNet) Notify(f network.Notifiee) {
	n.mu.Lock()
	n.notifiees = append(n.notifiees, f)
	n.mu.Unlock()
}

func (n *fakeNet) StopNotify(f network.Notifiee) {
	n.mu.Lock()
	for i, g := range n.notifiees {
		if g == f {
			n.notifiees = append(n.notifiees[:i:i], n.notifiees[i+1:]...)
			break
		}
	}
	n.mu.Unlock()
}

func (n *fakeNet) Connectedness(p peer.ID) network.Connectedness {
	r := "not"
	if n.conn[p] {
		r = "connected"
	}
	n.x.rec(ev{kind: "cq", peer: pidx(p), tag: -1, res: r})
	if n.conn[p] {
		return network.Connected
	}
	return network.NotConnected
}

func (n *fakeNet) set(p peer.ID, up bool) {
	n.evLk.Lock()
	defer n.evLk.Unlock()
	n.conn[p] = up
	k := "disc"
	if up {
		k = "conn"
	}
	n.x.rec(ev{kind: k, peer: pidx(p), tag: -1})
	n.mu.RLock()
	for _, f := range n.notifiees {
		if up {
			f.Connected(n, &fakeConn{p: p})
		} else {
			f.Disconnected(n, &fakeConn{p: p})
		}
	}
	n.mu.RUnlock()
}

type fakeHost struct {
	host.Host
	x  *exec
	n  *fakeNet
	cm *fakeConnMgr
}

func (h *fakeHost) Network() network.Network        { return h.n }
func (h *fakeHost) ConnManager() connmgr.ConnManager { return h.cm }

var errDial = errors.New("injected dial failure")

func (h *fakeHost) Connect(ctx context.Context, pi peer.AddrInfo) error {
	x := h.x
	p, tag := pidx(pi.ID), tagOf(pi.Addrs)
	var tm any
	if hd, ok := x.handlers[tag]; ok && hd != nil {
		tm, _ = peering.VerifHandlerTimer(hd)
	}
	x.rec(ev{kind: "dial", peer: p, tag: tag, ctx: ctx.Err() != nil, tm: tm})
	vsched.Yield("dial") // a dial takes time: anything may happen meanwhile
	if ctx.Err() != nil {
		x.rec(ev{kind: "dial-ret", peer: p, tag: tag, res: "ctx"})
		return ctx.Err()
	}
	out := x.sc.dial[vsched.Choose(len(x.sc.dial), x.sc.dialCost)]
	switch out {
	case "ok":
		h.n.set(pi.ID, true)
	case "flap": // the connection is established and drops again before Connect returns
		h.n.set(pi.ID, true)
		h.n.set(pi.ID, false)
	default:
		x.rec(ev{kind: "dial-ret", peer: p, tag: tag, res: "fail"})
		return errDial
	}
	x.rec(ev{kind: "dial-ret", peer: p, tag: tag, res: out})
	return nil
}

// ---------------------------------------------------------------------------
// script interpreter

func atoi(s string) int {
	n, err := strconv.Atoi(s)
	if err != nil {
		panic("bad script number " + s)
	}
	return n
}

func (x *exec) timerSnap() map[int]any {
	m := map[int]any{}
	for tag, h := range x.handlers {
		if h != nil {
			m[tag], _ = peering.VerifHandlerTimer(h)
		}
	}
	return m
}

func (x *exec) do(a string) {
	f := strings.Split(a, ":")
	switch f[0] {
	case "add":
		p, tag := atoi(f[1]), atoi(f[2])
		x.rec(ev{kind: "add-start", peer: p, tag: tag})
		x.ps.AddPeer(peer.AddrInfo{ID: pids[p], Addrs: []ma.Multiaddr{addrs[tag]}})
		x.handlers[tag] = peering.VerifHandler(x.ps, pids[p])
		x.rec(ev{kind: "add-ret", peer: p, tag: tag})
	case "remove":
		p := atoi(f[1])
		x.rec(ev{kind: "remove-start", peer: p, tag: -1, snap: x.timerSnap()})
		x.ps.RemovePeer(pids[p])
		x.rec(ev{kind: "remove-ret", peer: p, tag: -1})
	case "start":
		x.rec(ev{kind: "start-start", peer: -1, tag: -1})
		err := x.ps.Start()
		r := ""
		if err != nil {
			r = err.Error()
		}
		x.rec(ev{kind: "start-ret", peer: -1, tag: -1, res: r})
	case "stop":
		x.rec(ev{kind: "stop-start", peer: -1, tag: -1, snap: x.timerSnap()})
		x.ps.Stop()
		x.rec(ev{kind: "stop-ret", peer: -1, tag: -1})
	case "conn":
		x.net.set(pids[atoi(f[1])], true)
	case "disc":
		x.net.set(pids[atoi(f[1])], false)
	case "sleep": // milliseconds of virtual time
		vsched.Sleep(time.Duration(atoi(f[1])) * time.Millisecond)
	case "idle":
		vsched.WaitIdle()
	case "check": // quiescent point in the middle of a run (single-driver scripts only)
		vsched.WaitIdle()
		x.mid = append(x.mid, x.checkScheduled(x.snapshot(), len(x.log), "mid-run quiescent point")...)
	default:
		panic("unknown action " + a)
	}
}

func (x *exec) Main() {
	sc := x.sc
	x.start = vsched.Now()
	x.handlers = map[int]any{}
	x.seen = map[int][]obs{}
	x.net = &fakeNet{x: x, conn: map[peer.ID]bool{}}
	for _, p := range sc.connInit {
		x.net.conn[pids[p]] = true
	}
	h := &fakeHost{x: x, n: x.net, cm: &fakeConnMgr{prot: map[peer.ID]int{}}}
	x.ps = peering.NewPeeringService(h)
	for _, a := range sc.pre {
		x.do(a)
	}
	for i, th := range sc.threads {
		th := th
		vsched.GoNamed(fmt.Sprintf("driver%d", i), true, func() {
			for _, a := range th {
				x.do(a)
			}
		})
	}
}

func sortedTags(m map[int]any) []int {
	var ts []int
	for t := range m {
		ts = append(ts, t)
	}
	sort.Ints(ts)
	return ts
}

type armedQ interface {
	VerifArmed() (bool, time.Duration)
}

func (x *exec) snapshot() *endSnap {
	s := &endSnap{connected: map[int]bool{}, timer: map[int]any{}, armed: map[int]bool{}, remaining: map[int]time.Duration{}, nextDelay: map[int]time.Duration{}}
	s.state = peering.VerifState(x.ps)
	for i, p := range pids {
		s.connected[i] = x.net.conn[p]
	}
	for _, tag := range sortedTags(x.handlers) {
		h := x.handlers[tag]
		if h == nil {
			continue
		}
		tm, nd := peering.VerifHandlerTimer(h)
		s.timer[tag] = tm
		s.nextDelay[tag] = nd
		if tm != nil {
			if q, ok := tm.(armedQ); ok {
				s.armed[tag], s.remaining[tag] = q.VerifArmed()
			} else {
				panic(fmt.Sprintf("reconnectTimer is a %T: the peering package was not rewritten", tm))
			}
		}
	}
	s.allArmed = vsched.ArmedTimers()
	return s
}

func (x *exec) AtEnd(*vsched.Result) { x.end = x.snapshot() }

// ---------------------------------------------------------------------------
// oracle

// model derived from the log up to position upto (calls on one peer are
// issued by one thread, so the order of its add/remove calls is the log order)
type model struct {
	startOK    int // position of the first successful start-ret, -1
	stopStart  int
	stopRet    int
	stopNthr   int
	stopSnap   map[int]any
	deadStart  map[int]int // tag -> position of the remove-start of the RemovePeer that ended its incarnation
	addStart   map[int]int   // tag -> position of add-start
	tagPeer    map[int]int   // tag -> peer
	alive      map[int][]int // peer -> tags of the current incarnation
	deadPos    map[int]int   // tag -> position of the remove-ret that ended its incarnation
	deadNthr   map[int]int
	deadSnap   map[int]map[int]any
	lastDial   map[int]string // peer -> result of the last completed dial
	okDialSawD map[int]bool   // peer -> after an ok/flap dial the dialing thread's next Connectedness query saw "not connected"
}

func (x *exec) model(upto int) *model {
	m := &model{startOK: -1, stopStart: -1, stopRet: -1, addStart: map[int]int{}, tagPeer: map[int]int{}, alive: map[int][]int{}, deadPos: map[int]int{}, deadNthr: map[int]int{}, deadSnap: map[int]map[int]any{}, deadStart: map[int]int{}, lastDial: map[int]string{}, okDialSawD: map[int]bool{}}
	var lastRemoveSnap = map[int]map[int]any{}
	lastRemoveStart := map[int]int{}
	pendingOK := map[int]int{} // thread -> peer: thread returned from an ok/flap dial and has not queried yet
	for i := 0; i < upto && i < len(x.log); i++ {
		e := x.log[i]
		switch e.kind {
		case "start-ret":
			if e.res == "" && m.startOK < 0 {
				m.startOK = i
			}
		case "stop-start":
			if m.stopStart < 0 {
				m.stopStart, m.stopSnap = i, e.snap
			}
		case "stop-ret":
			if m.stopRet < 0 {
				m.stopRet, m.stopNthr = i, e.nthr
			}
		case "add-start":
			m.addStart[e.tag] = i
			m.tagPeer[e.tag] = e.peer
			m.alive[e.peer] = append(m.alive[e.peer], e.tag)
		case "remove-start":
			lastRemoveSnap[e.peer] = e.snap
			lastRemoveStart[e.peer] = i
		case "remove-ret":
			for _, tag := range m.alive[e.peer] {
				m.deadPos[tag], m.deadNthr[tag], m.deadSnap[tag], m.deadStart[tag] = i, e.nthr, lastRemoveSnap[e.peer], lastRemoveStart[e.peer]
			}
			m.alive[e.peer] = nil
		case "dial-ret":
			m.lastDial[e.peer] = e.res
			delete(pendingOK, e.thr)
			if e.res == "ok" || e.res == "flap" {
				pendingOK[e.thr] = e.peer
			}
		case "cq":
			if p, ok := pendingOK[e.thr]; ok && p == e.peer {
				if e.res == "not" {
					m.okDialSawD[p] = true
				}
				delete(pendingOK, e.thr)
			}
		}
	}
	return m
}

const maxDelay = 10 * time.Minute

// checkScheduled is part (i): while the service runs, every disconnected
// peering peer has a reconnect attempt scheduled with a delay in (0, 10 min].
func (x *exec) checkScheduled(s *endSnap, upto int, where string) []*eng.Violation {
	m := x.model(upto)
	if m.startOK < 0 || m.stopStart >= 0 || s.state != peering.StateRunning {
		return nil
	}
	var out []*eng.Violation
	for p := range pids {
		tags := m.alive[p]
		if len(tags) == 0 || s.connected[p] {
			continue
		}
		tag := tags[len(tags)-1]
		ld := m.lastDial[p]
		if ld == "" {
			ld = "none"
		}
		feats := []string{"last_dial", ld, "dropped_before_stopIfConnected", fmt.Sprint(m.okDialSawD[p])}
		switch {
		case s.timer[tag] == nil:
			out = append(out, eng.V("no-reconnect-scheduled", "quiescence", fmt.Sprintf("%s: service running, peer %d disconnected, reconnectTimer == nil\n%s", where, p, x.logString()), append(feats, "timer", "nil")...))
		case !s.armed[tag]:
			out = append(out, eng.V("no-reconnect-scheduled", "quiescence", fmt.Sprintf("%s: service running, peer %d disconnected, reconnectTimer is set but has fired and was not re-armed: nothing will ever dial this peer again\n%s", where, p, x.logString()), append(feats, "timer", "fired-not-rearmed")...))
		case s.remaining[tag] <= 0 || s.remaining[tag] > maxDelay || s.nextDelay[tag] <= 0 || s.nextDelay[tag] > maxDelay:
			out = append(out, eng.V("reconnect-delay-out-of-range", "quiescence", fmt.Sprintf("%s: peer %d reconnect timer remaining %v, nextDelay %v: not in (0, 10m]\n%s", where, p, s.remaining[tag], s.nextDelay[tag], x.logString()), feats...))
		}
	}
	return out
}

func (x *exec) violations() []*eng.Violation {
	out := append([]*eng.Violation{}, x.mid...)
	m := x.model(len(x.log))
	created := func(cur any, snap map[int]any, tag, from, to int) string {
		// was a timer that drives this handler's attempts created after Stop/RemovePeer was called (log position
		// from)? The handler's reconnectTimer is sampled at every logged event up to position to; cur is its value now.
		old, had := snap[tag]
		isNew := func(tm any) bool { return tm != nil && (!had || tm != old) }
		for _, o := range x.seen[tag] {
			if o.pos > from && o.pos <= to && isNew(o.tm) {
				return "true"
			}
		}
		if isNew(cur) {
			return "true"
		}
		if cur == nil {
			return "timer-nil"
		}
		return "false"
	}
	addedAfter := func(tag, pos int) string { return fmt.Sprint(m.addStart[tag] > pos) }
	// a handler whose RemovePeer had returned before Stop was called is no longer known to the service:
	// attempts made for it are attributed to RemovePeer only
	removedBefore := func(tag, pos int) bool {
		dp, ok := m.deadPos[tag]
		return ok && dp < pos
	}
	// (ii) dial attempts after Stop / RemovePeer returned. An attempt whose timer had already fired
	// (its reconnect thread existed) when the call returned overlaps the call and may linearize before it.
	for i, e := range x.log {
		if e.kind != "dial" {
			continue
		}
		if m.stopRet >= 0 && i > m.stopRet && e.thr >= m.stopNthr && !removedBefore(e.tag, m.stopStart) {
			out = append(out, eng.V("reconnect-after-stop", "Stop", fmt.Sprintf("peer %d (addr tag %d) was dialled at +%v by a reconnect timer that fired after Stop() had returned\n%s", e.peer, e.tag, e.t, x.logString()),
				"observed", "dial", "timer_created_after_call", created(e.tm, m.stopSnap, e.tag, m.stopStart, i), "added_after_call", addedAfter(e.tag, m.stopRet)))
		}
		if dp, ok := m.deadPos[e.tag]; ok && i > dp && e.thr >= m.deadNthr[e.tag] {
			out = append(out, eng.V("reconnect-after-stop", "RemovePeer", fmt.Sprintf("peer %d (addr tag %d) was dialled at +%v by a reconnect timer that fired after RemovePeer() had returned\n%s", e.peer, e.tag, e.t, x.logString()),
				"observed", "dial", "timer_created_after_call", created(e.tm, m.deadSnap[e.tag], e.tag, m.deadStart[e.tag], i), "added_after_call", "false"))
		}
	}
	// a reconnect timer still armed at the end for a stopped/removed handler: the attempt is scheduled and nothing can cancel it
	if s := x.end; s != nil {
		for _, tag := range sortedTags(x.handlers) {
			if !s.armed[tag] {
				continue
			}
			if m.stopRet >= 0 && !removedBefore(tag, m.stopStart) {
				out = append(out, eng.V("reconnect-after-stop", "Stop", fmt.Sprintf("at the end of the execution peer %d (addr tag %d) has a reconnect timer armed (fires in %v) although Stop() returned\n%s", m.tagPeer[tag], tag, s.remaining[tag], x.logString()),
					"observed", "armed-timer", "timer_created_after_call", created(s.timer[tag], m.stopSnap, tag, m.stopStart, len(x.log)), "added_after_call", addedAfter(tag, m.stopRet)))
			}
			if _, ok := m.deadPos[tag]; ok {
				out = append(out, eng.V("reconnect-after-stop", "RemovePeer", fmt.Sprintf("at the end of the execution removed peer %d (addr tag %d) has a reconnect timer armed (fires in %v)\n%s", m.tagPeer[tag], tag, s.remaining[tag], x.logString()),
					"observed", "armed-timer", "timer_created_after_call", created(s.timer[tag], m.deadSnap[tag], tag, m.deadStart[tag], len(x.log)), "added_after_call", "false"))
			}
		}
		// (i) at the final quiescent point
		out = append(out, x.checkScheduled(s, len(x.log), "final quiescent point")...)
	}
	return out
}

// explained: the violation has the feature pattern of a defect already recorded
// in findings.json; Check reports an unexplained violation first so that one
// defect cannot hide another in the same execution.
func explained(v *eng.Violation) bool {
	switch v.Symptom {
	case "no-reconnect-scheduled":
		return v.Features["dropped_before_stopIfConnected"] == "true" && v.Features["timer"] == "fired-not-rearmed"
	}
	return false
}

func (x *exec) Check(*vsched.Result) *eng.Violation {
	vs := x.violations()
	for _, v := range vs {
		if !explained(v) {
			return v
		}
	}
	if len(vs) > 0 {
		return vs[0]
	}
	return nil
}

func (x *exec) Outcome() string {
	var sb strings.Builder
	m := x.model(len(x.log))
	for i, e := range x.log {
		switch e.kind {
		case "dial":
			after := ""
			if m.stopRet >= 0 && i > m.stopRet {
				after += "S"
			}
			if dp, ok := m.deadPos[e.tag]; ok && i > dp {
				after += "R"
			}
			fmt.Fprintf(&sb, "dial%d.%d@%dms%s ", e.peer, e.tag, e.t.Milliseconds(), after)
		case "dial-ret":
			fmt.Fprintf(&sb, "=%s ", e.res)
		case "start-ret":
			fmt.Fprintf(&sb, "start=%q ", e.res)
		case "stop-ret":
			sb.WriteString("stop ")
		case "remove-ret":
			fmt.Fprintf(&sb, "rm%d ", e.peer)
		}
	}
	if s := x.end; s != nil {
		fmt.Fprintf(&sb, "| %v", s.state)
		for p := range pids {
			fmt.Fprintf(&sb, " c%d=%v", p, s.connected[p])
		}
		for _, tag := range sortedTags(x.handlers) {
			fmt.Fprintf(&sb, " t%d:set=%v,armed=%v,rem=%dms", tag, s.timer[tag] != nil, s.armed[tag], s.remaining[tag].Milliseconds())
		}
	}
	return sb.String()
}

func (x *exec) logString() string {
	var sb strings.Builder
	for i, e := range x.log {
		if e.kind == "cq" {
			fmt.Fprintf(&sb, "  %2d +%-8v T%-2d Connectedness(peer %d) = %s\n", i, e.t, e.thr, e.peer, e.res)
			continue
		}
		fmt.Fprintf(&sb, "  %2d +%-8v T%-2d %s", i, e.t, e.thr, e.kind)
		if e.peer >= 0 {
			fmt.Fprintf(&sb, " peer=%d", e.peer)
		}
		if e.tag >= 0 {
			fmt.Fprintf(&sb, " addr=%d", e.tag)
		}
		if e.res != "" {
			fmt.Fprintf(&sb, " -> %s", e.res)
		}
		if e.kind == "dial" && e.ctx {
			sb.WriteString(" (ctx already cancelled)")
		}
		if strings.HasSuffix(e.kind, "-ret") && (strings.HasPrefix(e.kind, "stop") || strings.HasPrefix(e.kind, "remove")) {
			fmt.Fprintf(&sb, " (threads so far: %d)", e.nthr)
		}
		sb.WriteString("\n")
	}
	return sb.String()
}

// ---------------------------------------------------------------------------
// scenarios

func scripts(thorough bool) []*script {
	fail := []string{"fail", "ok"}
	okf := []string{"ok", "fail"}
	ss := []*script{
		// Start spawns `go startIfDisconnected`; Stop follows immediately
		{name: "start-stop", unlock: true, pre: []string{"add:0:0"}, threads: [][]string{{"start", "stop"}}, dial: fail, dialCost: 1, idle: 4},
		// Start and Stop from different threads (either may win)
		{name: "start-vs-stop", unlock: true, pre: []string{"add:0:0"}, threads: [][]string{{"start"}, {"stop"}}, dial: fail, dialCost: 1, idle: 4},
		// a Disconnected notification races with Stop
		{name: "disc-vs-stop", unlock: true, connInit: []int{0}, pre: []string{"add:0:0", "start", "idle"}, threads: [][]string{{"disc:0"}, {"stop"}}, dial: fail, dialCost: 1, idle: 4},
		// a Connected notification races with Stop while a reconnect timer is armed
		{name: "conn-vs-stop", unlock: true, pre: []string{"add:0:0", "start", "idle"}, threads: [][]string{{"conn:0"}, {"stop"}}, dial: fail, dialCost: 1, idle: 4},
		// Stop while the reconnect loop is going (timer armed / firing / dial in flight); 7500 ms is the first reconnect deadline
		{name: "stop-during-reconnect", unlock: true, pre: []string{"add:0:0", "start", "idle"}, threads: [][]string{{"sleep:7500", "stop"}}, dial: fail, dialCost: 1, idle: 6},
		{name: "stop-after-first-dial", pre: []string{"add:0:0", "start", "idle"}, threads: [][]string{{"sleep:8000", "stop"}}, dial: fail, dialCost: 1, idle: 6},
		// AddPeer on a running service spawns `go startIfDisconnected`; RemovePeer follows immediately
		{name: "add-remove", unlock: true, pre: []string{"start"}, threads: [][]string{{"add:0:0", "remove:0"}}, dial: fail, dialCost: 1, idle: 4},
		// remove while reconnecting, then add the same peer again with a new address
		{name: "remove-readd", pre: []string{"start", "add:0:0", "idle"}, threads: [][]string{{"sleep:7500", "remove:0", "add:0:1"}}, dial: fail, dialCost: 1, idle: 6},
		// RemovePeer races with a Disconnected notification
		{name: "disc-vs-remove", unlock: true, connInit: []int{0}, pre: []string{"start", "add:0:0", "idle"}, threads: [][]string{{"disc:0"}, {"remove:0"}}, dial: fail, dialCost: 1, idle: 4},
		// two peers: removing one must leave the other's reconnect schedule intact
		{name: "two-peers-remove-one", pre: []string{"start", "add:0:0", "add:1:1", "idle"}, threads: [][]string{{"sleep:7500", "remove:0"}}, dial: fail, dialCost: 1, idle: 6, delta: -1},
		// plain reconnect loop with failing / succeeding dials and all vrand answers: part (i) at the horizon
		{name: "reconnect-loop", pre: []string{"add:0:0", "start"}, threads: [][]string{{"check"}}, dial: fail, dialCost: 0, idle: 4},
		// dial succeeds; the peer drops the connection afterwards
		{name: "dial-ok-then-disc", pre: []string{"add:0:0", "start", "idle"}, threads: [][]string{{"sleep:8000", "disc:0"}}, dial: okf, dialCost: 1, idle: 6},
		// connection flaps inside the dial (established and dropped before Connect returns)
		{name: "dial-flap", pre: []string{"add:0:0", "start"}, threads: [][]string{{"check"}}, dial: []string{"fail", "flap", "ok"}, dialCost: 1, idle: 4},
		// inbound connection and disconnection notifications while a reconnect timer is armed
		{name: "conn-disc-notifs", pre: []string{"add:0:0", "start", "idle"}, threads: [][]string{{"conn:0", "disc:0", "check"}}, dial: fail, dialCost: 1, idle: 4},
		{name: "conn-vs-disc-threads", connInit: []int{0}, pre: []string{"add:0:0", "start", "idle"}, threads: [][]string{{"disc:0", "conn:0"}, {"sleep:1000", "disc:0"}}, dial: fail, dialCost: 1, idle: 5},
		// inbound connection while our own dial is in flight
		{name: "conn-during-dial", pre: []string{"add:0:0", "start", "idle"}, threads: [][]string{{"sleep:7500", "conn:0", "disc:0"}}, dial: fail, dialCost: 1, idle: 6},
		// stopped service: nothing is ever dialled, Start fails
		{name: "add-after-stop", pre: []string{"start", "stop"}, threads: [][]string{{"add:0:0", "start", "disc:0"}}, dial: fail, dialCost: 1, idle: 4},
		{name: "stop-before-start", pre: []string{"add:0:0"}, threads: [][]string{{"stop", "start", "add:1:1"}}, dial: fail, dialCost: 1, idle: 4},
		// AddPeer racing with Start and with Stop
		{name: "add-vs-start", threads: [][]string{{"add:0:0"}, {"start"}}, dial: fail, dialCost: 1, idle: 4},
		{name: "add-vs-stop", unlock: true, pre: []string{"start"}, threads: [][]string{{"add:0:0"}, {"stop"}}, dial: fail, dialCost: 1, idle: 4},
	}
	if thorough {
		ss = append(ss,
			&script{name: "disc-conn-vs-stop", connInit: []int{0}, pre: []string{"add:0:0", "start", "idle"}, threads: [][]string{{"disc:0", "conn:0", "disc:0"}, {"stop"}}, dial: fail, dialCost: 1, idle: 4, delta: -1},
			&script{name: "reconnect-loop-long", pre: []string{"add:0:0", "start"}, threads: [][]string{{"check"}}, dial: fail, dialCost: 0, idle: 7, delta: -1},
			&script{name: "three-threads", connInit: []int{0}, pre: []string{"start", "add:0:0", "idle"}, threads: [][]string{{"disc:0"}, {"remove:0", "add:0:1"}, {"sleep:7500", "stop"}}, dial: fail, dialCost: 1, idle: 6, delta: -1},
		)
	}
	return ss
}

func scenarios(thorough bool) []*vexp.Scenario {
	var out []*vexp.Scenario
	for _, s := range scripts(thorough) {
		s := s
		out = append(out, &vexp.Scenario{
			Name: s.name, BoundDelta: s.delta,
			Cfg: vsched.Config{MaxSteps: 20000, MaxIdleFires: s.idle, SelectCost: 1, UnlockPoints: s.unlock},
			New: func() vexp.Exec { return &exec{sc: s} },
		})
	}
	return out
}

// ---------------------------------------------------------------------------
// part (iii): backoff values. Explicit-state search over nextDelay: the real
// nextBackoff is run under the scheduler for every combination of vrand answers
// {0, n/2, n-1}; the search ends when the reachable set of nextDelay values is closed.

type backoffCase struct {
	Delay   int64 `json:"backoff_delay_ns"`
	Answers []int `json:"answers"`
}

func runBackoff(d time.Duration, answers []int) (ret, next time.Duration, res *vsched.Result) {
	res = vsched.Run(vsched.Config{MaxSteps: 1000, MaxIdleFires: 0, Prefix: answers}, func() {
		ret, next = peering.VerifNextBackoff(d)
	})
	return
}

func judgeBackoff(d time.Duration, answers []int, ret, next time.Duration, res *vsched.Result) *eng.Violation {
	c := backoffCase{int64(d), append([]int{}, answers...)}
	if res.Verdict != "ok" {
		v := eng.V("backoff-"+res.Verdict, "nextBackoff", fmt.Sprintf("nextBackoff with nextDelay=%v, rand answers %v: %s", d, answers, res.Detail))
		v.Replay = c
		return v
	}
	if ret <= 0 || ret > maxDelay || next <= 0 || next > maxDelay {
		v := eng.V("backoff-out-of-range", "nextBackoff", fmt.Sprintf("nextBackoff with nextDelay=%v and rand answers %v (0: 0, 1: n/2, 2: n-1) returned %v (nextDelay now %v): not in (0, 10m]", d, answers, ret, next), "too_big", fmt.Sprint(ret > maxDelay || next > maxDelay))
		v.Replay = c
		return v
	}
	return nil
}

func backoffSearch(r *eng.Run) {
	seen := map[time.Duration]bool{peering.VerifInitialDelay: true}
	frontier := []time.Duration{peering.VerifInitialDelay}
	trans, capped, maxDepth := 0, 0, 0
	var minV, maxV time.Duration = 1 << 62, 0
	for depth := 0; len(frontier) > 0; depth++ {
		maxDepth = depth
		var nextF []time.Duration
		for _, d := range frontier {
			var rec func(prefix []int)
			rec = func(prefix []int) {
				ret, next, res := runBackoff(d, prefix)
				trans++
				if len(res.Points) == 2 {
					capped++
				}
				if v := judgeBackoff(d, res.Choices, ret, next, res); v != nil {
					r.Report(v)
					return
				}
				if ret < minV {
					minV = ret
				}
				if ret > maxV {
					maxV = ret
				}
				if !seen[next] {
					seen[next] = true
					nextF = append(nextF, next)
				}
				for i := len(prefix); i < len(res.Points); i++ {
					for a := 1; a < res.Points[i].N; a++ {
						np := append(append([]int{}, res.Choices[:i]...), a)
						rec(np)
					}
				}
			}
			rec(nil)
		}
		frontier = nextF
		if r.Expired() {
			r.Incomplete("backoff search: budget hit before the reachable set closed")
			break
		}
	}
	// straight-line sequences of 100 consecutive failures for each constant answer
	for a := 0; a < 3; a++ {
		d := peering.VerifInitialDelay
		for k := 0; k < 100; k++ {
			ret, next, res := runBackoff(d, []int{a, a})
			trans++
			if v := judgeBackoff(d, res.Choices, ret, next, res); v != nil {
				r.Report(v)
				break
			}
			if !seen[next] {
				r.Report(eng.V("backoff-search-not-closed", "nextBackoff", fmt.Sprintf("harness self-check: delay %v reached by the constant-answer sequence is not in the closed set", next)))
			}
			d = next
		}
	}
	r.Eval(trans)
	r.Set("backoff_reachable_nextDelay_values", len(seen))
	r.Set("backoff_transitions", trans)
	r.Set("backoff_transitions_through_cap_branch", capped)
	r.Set("backoff_search_depth_until_closed", maxDepth)
	r.Set("backoff_min_delay", minV.String())
	r.Set("backoff_max_delay", maxV.String())
	r.Outcome(fmt.Sprintf("backoff:min=%v,max=%v", minV, maxV))
}

func main() {
	eng.WorkerMain = func() { vexp.Register(scenarios(true)...); eng.WorkerMain() }
	eng.Main("C46", "model_checking", func(r *eng.Run) {
		r.Rule("(a) every schedule (thread interleaving, timer firing order, dial outcome ok/fail/flap, vrand answer 0|n/2|n-1) of each scenario with at most B deviations from the default run-to-completion schedule, run on the rewritten real PeeringService against a fake host; a case is non-trivial when it has >= 1 deviation; (b) explicit-state search over peerHandler.nextDelay: the real nextBackoff under every combination of vrand answers, until the reachable set closes, plus 100-step constant-answer sequences")
		r.Assume("vsched models sync, goroutine spawn and time.AfterFunc/Reset/Stop faithfully; virtual time (a timer never fires before an earlier-deadline timer)")
		r.Assume("fake host: notifications are delivered under the notifiee read-lock like the libp2p swarm (StopNotify waits for in-flight notifications); Connect with a cancelled context fails")
		r.Assume("a dial made by a reconnect callback whose timer had already fired when Stop/RemovePeer returned overlaps that call and is not counted as 'after' it")
		r.Assume("math/rand answers restricted to {0, n/2, n-1}")
		backoffSearch(r)
		vexp.Explore(r, scenarios(r.Thorough()), vexp.Options{Bound: eng.Pick(r, 2, 3)})
	}, func(r *eng.Run, raw json.RawMessage) {
		var bc backoffCase
		if json.Unmarshal(raw, &bc) == nil && bc.Delay != 0 {
			d := time.Duration(bc.Delay)
			ret, next, res := runBackoff(d, bc.Answers)
			fmt.Printf("  nextBackoff(nextDelay=%v, answers=%v) = %v (nextDelay %v) verdict=%s\n", d, bc.Answers, ret, next, res.Verdict)
			r.Eval(1)
			if v := judgeBackoff(d, res.Choices, ret, next, res); v != nil {
				r.Report(v)
			} else {
				fmt.Println("  replay: no violation")
			}
			return
		}
		vexp.Replay(r, scenarios(true), raw)
	})
}
