//go:build verif

package peering

import (
	"time"

	"github.com/libp2p/go-libp2p/core/peer"
)

// Read-only accessors for the C46 harness. No locks are taken: they are only
// called from harness code under the cooperative scheduler (one thread runs at
// a time) or after the execution has ended.

// VerifHandler returns the current handler of id as an opaque value (nil if none).
func VerifHandler(ps *PeeringService, id peer.ID) any {
	h, ok := ps.peers[id]
	if !ok {
		return nil
	}
	return h
}

// VerifHandlerTimer returns the handler's reconnectTimer as an opaque value
// (nil interface when the field is nil) and its nextDelay.
func VerifHandlerTimer(h any) (timer any, nextDelay time.Duration) {
	ph := h.(*peerHandler)
	if ph.reconnectTimer == nil {
		return nil, ph.nextDelay
	}
	return ph.reconnectTimer, ph.nextDelay
}

// VerifState reads the service state without locking.
func VerifState(ps *PeeringService) State { return ps.state }

// VerifNextBackoff runs the real nextBackoff on a handler whose nextDelay is d
// and returns the delay it hands to the timer and the new nextDelay.
func VerifNextBackoff(d time.Duration) (ret, next time.Duration) {
	ph := &peerHandler{nextDelay: d}
	ret = ph.nextBackoff()
	return ret, ph.nextDelay
}

const (
	VerifMaxBackoff   = maxBackoff
	VerifInitialDelay = initialDelay
)
