//go:build verif

package main

import (
	"context"
	"encoding/binary"
	"encoding/json"
	"errors"
	"fmt"
	"sort"
	"strings"
	"sync"

	bsfetcher "github.com/ipfs/boxo/fetcher/impl/blockservice"
	"github.com/ipfs/boxo/ipld/merkledag"
	"github.com/ipfs/boxo/blockservice"
	"github.com/ipfs/boxo/blockstore"
	"github.com/ipfs/boxo/exchange/offline"
	blocks "github.com/ipfs/go-block-format"
	ds "github.com/ipfs/go-datastore"
	dssync "github.com/ipfs/go-datastore/sync"
	ft "github.com/ipfs/boxo/ipld/unixfs"
	uio "github.com/ipfs/boxo/ipld/unixfs/io"
	"github.com/ipfs/boxo/path"
	"github.com/ipfs/boxo/path/resolver"
	"github.com/ipfs/boxo/verifshim/eng"
	cid "github.com/ipfs/go-cid"
	format "github.com/ipfs/go-ipld-format"
	"github.com/ipfs/go-unixfsnode"
	dagpb "github.com/ipld/go-codec-dagpb"
	ipldp "github.com/ipld/go-ipld-prime"
	cidlink "github.com/ipld/go-ipld-prime/linking/cid"
	"github.com/spaolacci/murmur3"
)

// ---------------------------------------------------------------------------
// name pool

var pool []string // names that may appear as directory entries / be looked up

func hashBitsPrefix(name string, bits int) uint64 {
	h := murmur3.New64()
	h.Write([]byte(name))
	v := binary.BigEndian.Uint64(h.Sum(nil))
	return v >> (64 - uint(bits))
}

// findColliding returns a short name that shares exactly `levels` HAMT index
// levels (width 8 => 3 bits per level) with base and differs at the next one.
// Deterministic exhaustive search in lexicographic order of a counter.
func findColliding(base string, levels int, tag string) string {
	want := hashBitsPrefix(base, 3*levels)
	wantNext := hashBitsPrefix(base, 3*(levels+1))
	for i := 0; ; i++ {
		n := fmt.Sprintf("%s%d", tag, i)
		if hashBitsPrefix(n, 3*levels) == want && hashBitsPrefix(n, 3*(levels+1)) != wantNext {
			return n
		}
	}
}

func initPool(n int) {
	long := strings.Repeat("L", 300)
	all := []string{
		"a",
		findColliding("a", 2, "x"), // shares 2 levels of a width-8 HAMT with "a"
		"1",                        // parses as an integer path segment
		findColliding("a", 6, "z"), // shares 6 levels (18 bits; 2 levels of width 256)
		" ",
		findColliding("a", 3, "y"),
		long,
		"b",
	}
	pool = all[:n]
}

// ---------------------------------------------------------------------------
// shared content-addressed store, builders

// ctxStore models what every real datastore does and the in-memory map does not:
// an operation started with a finished context fails with ctx.Err().
type ctxStore struct{ blockstore.Blockstore }

func (c ctxStore) Get(ctx context.Context, k cid.Cid) (blocks.Block, error) {
	if err := ctx.Err(); err != nil {
		return nil, err
	}
	return c.Blockstore.Get(ctx, k)
}

func (c ctxStore) Has(ctx context.Context, k cid.Cid) (bool, error) {
	if err := ctx.Err(); err != nil {
		return false, err
	}
	return c.Blockstore.Has(ctx, k)
}

func (c ctxStore) GetSize(ctx context.Context, k cid.Cid) (int, error) {
	if err := ctx.Err(); err != nil {
		return 0, err
	}
	return c.Blockstore.GetSize(ctx, k)
}

func newBserv() blockservice.BlockService {
	bs := ctxStore{blockstore.NewBlockstore(dssync.MutexWrap(ds.NewMapDatastore()))}
	return blockservice.New(bs, offline.Exchange(bs))
}

var (
	bserv = newBserv()
	dserv = merkledag.NewDAGService(bserv)
	res   resolver.Resolver
	memo  sync.Map // build key -> *nodeM
)

type nodeM struct {
	nd      format.Node
	c       cid.Cid
	kind    string // raw | pbfile | file2 | basic | hamt8 | hamt256
	data    []byte
	entries map[string]*nodeM
}

func (n *nodeM) isDir() bool { return n.entries != nil }

func must(err error) {
	if err != nil {
		panic(err)
	}
}

func addNode(nd format.Node) { must(dserv.Add(context.Background(), nd)) }

func rawFile(data []byte) *nodeM {
	nd := merkledag.NewRawNode(data)
	addNode(nd)
	return &nodeM{nd: nd, c: nd.Cid(), kind: "raw", data: data}
}

func pbFile(data []byte) *nodeM {
	nd := merkledag.NodeWithData(ft.FilePBData(data, uint64(len(data))))
	addNode(nd)
	return &nodeM{nd: nd, c: nd.Cid(), kind: "pbfile", data: data}
}

// file2 is a two-leaf dag-pb file (links with empty names).
func file2(data []byte) *nodeM {
	h := len(data) / 2
	a, b := rawFile(data[:h]), rawFile(data[h:])
	fs := ft.NewFSNode(ft.TFile)
	fs.AddBlockSize(uint64(h))
	fs.AddBlockSize(uint64(len(data) - h))
	bts, err := fs.GetBytes()
	must(err)
	nd := merkledag.NodeWithData(bts)
	must(nd.AddNodeLink("", a.nd))
	must(nd.AddNodeLink("", b.nd))
	addNode(nd)
	return &nodeM{nd: nd, c: nd.Cid(), kind: "file2", data: data}
}

var dirKinds = []string{"basic", "hamt8", "hamt256"}

func buildDir(kind string, names []string, children []*nodeM) *nodeM {
	var kb strings.Builder
	kb.WriteString(kind)
	for i, n := range names {
		kb.WriteString("|" + n + "=" + children[i].c.KeyString())
	}
	if v, ok := memo.Load(kb.String()); ok {
		return v.(*nodeM)
	}
	ctx := context.Background()
	var d uio.Directory
	var err error
	switch kind {
	case "basic":
		d, err = uio.NewBasicDirectory(dserv)
	case "hamt8":
		d, err = uio.NewHAMTDirectory(dserv, 0, uio.WithMaxHAMTFanout(8))
	case "hamt256":
		d, err = uio.NewHAMTDirectory(dserv, 0, uio.WithMaxHAMTFanout(256))
	}
	must(err)
	m := &nodeM{kind: kind, entries: map[string]*nodeM{}}
	for i, n := range names {
		must(d.AddChild(ctx, n, children[i].nd))
		m.entries[n] = children[i]
	}
	nd, err := d.GetNode()
	must(err)
	addNode(nd)
	m.nd, m.c = nd, nd.Cid()
	memo.Store(kb.String(), m)
	return m
}

// terminal returns the fixed entry used for pool name i wherever that name is
// not the followed spine entry. Types rotate so that every directory mixes raw
// files, dag-pb files, multi-block files and sub-directories; contents depend
// on the name so different names always have different CIDs.
var terminals []*nodeM

func initTerminals() {
	terminals = nil
	for i, n := range pool {
		short := n
		if len(short) > 8 {
			short = short[:8]
		}
		data := []byte(fmt.Sprintf("content of entry #%d %q", i, short))
		var t *nodeM
		switch i % 4 {
		case 0:
			t = rawFile(data)
		case 1:
			inner := pbFile([]byte("inner " + string(data)))
			t = buildDir(dirKinds[(i/4+1)%3], []string{fmt.Sprintf("e%d", i)}, []*nodeM{inner})
		case 2:
			t = pbFile(data)
		case 3:
			t = file2(data)
		}
		terminals = append(terminals, t)
	}
}

// ---------------------------------------------------------------------------
// cases

type level struct {
	Kind   int   `json:"kind"`
	Names  []int `json:"names"`  // pool indexes, ascending
	Follow int   `json:"follow"` // pool index of the entry that holds the next level (-1 on the last level)
}

type spine struct {
	Pool   int     `json:"pool"`
	Levels []level `json:"levels"`
}

// levelConfigs enumerates every (kind, name subset with <= maxFan names, followed name).
// withFollow=false yields one config per (kind, subset) with Follow=-1.
func levelConfigs(maxFan int, withFollow bool) []level {
	var out []level
	n := len(pool)
	for k := range dirKinds {
		for mask := 0; mask < 1<<n; mask++ {
			var names []int
			for i := 0; i < n; i++ {
				if mask&(1<<i) != 0 {
					names = append(names, i)
				}
			}
			if len(names) > maxFan {
				continue
			}
			if !withFollow {
				out = append(out, level{Kind: k, Names: names, Follow: -1})
				continue
			}
			for _, f := range names {
				out = append(out, level{Kind: k, Names: names, Follow: f})
			}
		}
	}
	return out
}

// build constructs the spine bottom-up and returns the root.
func (s spine) build() *nodeM {
	var next *nodeM
	for j := len(s.Levels) - 1; j >= 0; j-- {
		l := s.Levels[j]
		names := make([]string, len(l.Names))
		ch := make([]*nodeM, len(l.Names))
		for i, ni := range l.Names {
			names[i] = pool[ni]
			if ni == l.Follow && next != nil {
				ch[i] = next
			} else {
				ch[i] = terminals[ni]
			}
		}
		next = buildDir(dirKinds[l.Kind], names, ch)
	}
	return next
}

// ---------------------------------------------------------------------------
// oracle

type expect struct {
	node    *nodeM // non-nil: path exists and names this entry
	missing string // set: first missing segment (under a directory)
	thruFile bool  // path continues below a file
}

// model resolution: walk the name->entry maps.
func modelResolve(root *nodeM, segs []string) expect {
	cur := root
	for _, s := range segs {
		if !cur.isDir() {
			return expect{thruFile: true}
		}
		nx, ok := cur.entries[s]
		if !ok {
			return expect{missing: s}
		}
		cur = nx
	}
	return expect{node: cur}
}

func feats(root *nodeM, segs []string, api string) []string {
	// describe the defect class: kind of the directory in which the last
	// decisive lookup happens, the kind of segment, the api
	cur := root
	dirKind := root.kind
	segKind := "plain"
	for _, s := range segs {
		if !cur.isDir() {
			dirKind = cur.kind
			break
		}
		dirKind = cur.kind
		segKind = "plain"
		if _, err := fmt.Sscanf(s, "%d", new(int)); err == nil && strings.Trim(s, "0123456789") == "" {
			segKind = "numeric"
		}
		nx, ok := cur.entries[s]
		if !ok {
			break
		}
		cur = nx
	}
	return []string{"api", api, "dir", dirKind, "segment", segKind, "empty_hamt_on_path", fmt.Sprint(emptyHAMTOnPath(root, segs))}
}

// emptyHAMTOnPath: does the model walk of segs touch (load) a HAMT directory without entries?
func emptyHAMTOnPath(root *nodeM, segs []string) bool {
	cur := root
	for i := 0; ; i++ {
		if cur.isDir() && len(cur.entries) == 0 && strings.HasPrefix(cur.kind, "hamt") {
			return true
		}
		if i == len(segs) || !cur.isDir() {
			return false
		}
		nx, ok := cur.entries[segs[i]]
		if !ok {
			return false
		}
		cur = nx
	}
}

func check(r *eng.Run, sp spine, root *nodeM, segs []string) (viol []*eng.Violation, outcome string) {
	ctx := context.Background()
	p, err := path.NewPathFromSegments(append([]string{"ipfs", root.c.String()}, segs...)...)
	must(err)
	ip, err := path.NewImmutablePath(p)
	must(err)
	if got := ip.Segments()[2:]; strings.Join(got, "/") != strings.Join(segs, "/") {
		panic(fmt.Sprintf("harness: path %q does not round-trip segments %q", ip.String(), segs))
	}
	exp := modelResolve(root, segs)
	rep := map[string]any{"spine": sp, "segs": segs}
	mk := func(api, symptom, detail string) {
		v := eng.V(symptom, api, fmt.Sprintf("path=/ipfs/<root>/%s (root %s kind %s): %s", strings.Join(segs, "/"), root.c, root.kind, detail), feats(root, segs, api)...)
		v.Replay = rep
		viol = append(viol, v)
	}

	// --- ResolveToLastNode
	var c cid.Cid
	var rem []string
	if g := eng.Guard("ResolveToLastNode", func() { c, rem, err = res.ResolveToLastNode(ctx, ip) }); g != nil {
		g.Replay = rep
		viol = append(viol, g)
	}
	var nl *resolver.ErrNoLink
	switch {
	case exp.node != nil:
		outcome = "found"
		if err != nil {
			mk("ResolveToLastNode", "existing-path-error", fmt.Sprintf("error %v, want cid %s", err, exp.node.c))
		} else if !c.Equals(exp.node.c) {
			mk("ResolveToLastNode", "wrong-cid", fmt.Sprintf("cid %s, want %s", c, exp.node.c))
		} else if len(rem) != 0 {
			mk("ResolveToLastNode", "non-empty-remainder", fmt.Sprintf("remainder %q, want empty", rem))
		}
	case exp.missing != "":
		outcome = "nolink"
		if err == nil {
			mk("ResolveToLastNode", "missing-name-resolved", fmt.Sprintf("resolved to %s rem %q, want ErrNoLink{%q}", c, rem, exp.missing))
		} else if !errors.As(err, &nl) {
			mk("ResolveToLastNode", "missing-name-wrong-error", fmt.Sprintf("error %T %v, want ErrNoLink{%q}", err, err, exp.missing))
		} else if nl.Name != exp.missing {
			mk("ResolveToLastNode", "nolink-wrong-segment", fmt.Sprintf("ErrNoLink names %q, want %q", nl.Name, exp.missing))
		}
	case exp.thruFile:
		// the statement only speaks about names in directories; below a file we
		// demand no success with an empty remainder (nothing is named there).
		if err == nil && len(rem) == 0 {
			mk("ResolveToLastNode", "path-below-file-resolved", fmt.Sprintf("resolved to %s with empty remainder", c))
		}
		if err == nil {
			outcome = "thrufile-remainder"
		} else {
			outcome = fmt.Sprintf("thrufile-err-%T", err)
		}
	}

	// --- ResolvePath
	var nd ipldp.Node
	var lnk ipldp.Link
	if g := eng.Guard("ResolvePath", func() { nd, lnk, err = res.ResolvePath(ctx, ip) }); g != nil {
		g.Replay = rep
		viol = append(viol, g)
	}
	switch {
	case exp.node != nil:
		if err != nil {
			mk("ResolvePath", "existing-path-error", fmt.Sprintf("error %v, want cid %s", err, exp.node.c))
		} else if cl, ok := lnk.(cidlink.Link); !ok || !cl.Cid.Equals(exp.node.c) {
			mk("ResolvePath", "wrong-cid", fmt.Sprintf("link %v, want %s", lnk, exp.node.c))
		} else if d := nodeMismatch(nd, exp.node); d != "" {
			mk("ResolvePath", "wrong-node", d)
		}
	case exp.missing != "":
		if err == nil {
			mk("ResolvePath", "missing-name-resolved", fmt.Sprintf("resolved to %v, want an error for missing %q", lnk, exp.missing))
		}
		if errors.As(err, &nl) {
			outcome += "/rp-nolink"
		} else {
			outcome += "/rp-other-error"
		}
	case exp.thruFile:
		if err == nil {
			mk("ResolvePath", "path-below-file-resolved", fmt.Sprintf("resolved to %v", lnk))
		}
	}

	// --- ResolvePathComponents
	var nodes []ipldp.Node
	if g := eng.Guard("ResolvePathComponents", func() { nodes, err = res.ResolvePathComponents(ctx, ip) }); g != nil {
		g.Replay = rep
		viol = append(viol, g)
	}
	switch {
	case exp.node != nil:
		if err != nil {
			mk("ResolvePathComponents", "existing-path-error", fmt.Sprintf("error %v", err))
		} else if len(nodes) != len(segs)+1 {
			mk("ResolvePathComponents", "wrong-component-count", fmt.Sprintf("%d nodes for %d segments", len(nodes), len(segs)))
		} else if d := nodeMismatch(nodes[len(nodes)-1], exp.node); d != "" {
			mk("ResolvePathComponents", "wrong-node", d)
		}
	default:
		// a path through a missing name must not yield a node for every segment
		if err == nil && len(nodes) == len(segs)+1 {
			mk("ResolvePathComponents", "missing-name-resolved", fmt.Sprintf("returned %d nodes for %d segments although %q is missing", len(nodes), len(segs), exp.missing))
		}
	}
	return viol, outcome
}

// nodeMismatch compares the content reachable through the returned IPLD node
// with the model entry: file bytes, or the directory listing.
func nodeMismatch(nd ipldp.Node, want *nodeM) string {
	if nd == nil {
		return "nil node"
	}
	if !want.isDir() {
		b, err := nd.AsBytes()
		if err != nil {
			// a dag-pb file that was not reified as bytes: accept only if it still is the right block (cid checked by caller)
			return fmt.Sprintf("file node not readable as bytes: %v", err)
		}
		if string(b) != string(want.data) {
			return fmt.Sprintf("file bytes %q, want %q", b, want.data)
		}
		return ""
	}
	// directory: every model entry must be found under its name with the right CID
	for n, ch := range want.entries {
		v, err := nd.LookupByString(n)
		if err != nil {
			return fmt.Sprintf("directory node: LookupByString(%q): %v", trunc(n), err)
		}
		l, err := v.AsLink()
		if err != nil {
			return fmt.Sprintf("directory node: entry %q is not a link: %v", trunc(n), err)
		}
		if cl, ok := l.(cidlink.Link); !ok || !cl.Cid.Equals(ch.c) {
			return fmt.Sprintf("directory node: entry %q -> %v, want %s", trunc(n), l, ch.c)
		}
	}
	return ""
}

func trunc(s string) string {
	if len(s) > 12 {
		return s[:12] + "…"
	}
	return s
}

// queries for one spine: for every directory on the spine, every pool name
// (existing or not), a continuation below every missing name, below every file
// and below every terminal sub-directory.
func (s spine) queries(root *nodeM) [][]string {
	var qs [][]string
	qs = append(qs, nil)
	var prefix []string
	cur := root
	for _, l := range s.Levels {
		for i, n := range pool {
			q := append(append([]string{}, prefix...), n)
			qs = append(qs, q)
			e, ok := cur.entries[n]
			switch {
			case !ok:
				qs = append(qs, append(append([]string{}, q...), "zz"))
			case !e.isDir():
				qs = append(qs, append(append([]string{}, q...), "x"))
				if e.kind == "file2" {
					qs = append(qs, append(append([]string{}, q...), "Links"), append(append([]string{}, q...), "0"))
				}
			case i != l.Follow:
				// terminal sub-directory: its entry, a missing name, a missing name with continuation
				for n2 := range e.entries {
					qs = append(qs, append(append([]string{}, q...), n2), append(append([]string{}, q...), n2, "x"))
				}
				qs = append(qs, append(append([]string{}, q...), "nope"), append(append([]string{}, q...), "nope", "zz"))
			}
		}
		if l.Follow < 0 {
			break
		}
		prefix = append(prefix, pool[l.Follow])
		cur = cur.entries[pool[l.Follow]]
	}
	return qs
}

func runSpine(r *eng.Run, sp spine) {
	var root *nodeM
	if g := eng.Guard("build", func() { root = sp.build() }); g != nil {
		g.Replay = map[string]any{"spine": sp}
		r.Report(g)
		return
	}
	if last := sp.Levels[len(sp.Levels)-1]; last.Kind == 1 {
		// fan-out 8: two names sharing the first 3 hash bits are stored in a child shard block
		seen := map[uint64]bool{}
		for _, ni := range last.Names {
			h := hashBitsPrefix(pool[ni], 3)
			if seen[h] {
				r.Add("spines_last_dir_hamt_entry_in_child_shard", 1)
				break
			}
			seen[h] = true
		}
	}
	qs := sp.queries(root)
	for _, q := range qs {
		vs, out := check(r, sp, root, q)
		for _, v := range vs {
			r.Report(v)
		}
		r.Outcome(out)
		r.Add("outcome:"+out, 1)
	}
	r.Eval(len(qs) * 3)
	r.Add("paths", len(qs))
}

func spineKey(sp spine) string {
	b, _ := json.Marshal(sp)
	return string(b)
}

func setup(npool int) {
	initPool(npool)
	initTerminals()
	fc := bsfetcher.NewFetcherConfig(bserv)
	fc.PrototypeChooser = dagpb.AddSupportToChooser(bsfetcher.DefaultPrototypeChooser)
	res = resolver.NewBasicResolver(fc.WithReifier(unixfsnode.Reify))
}

// wide directories: one level, many entries (multi-level HAMT for width 8 and a
// second level for width 256), every name looked up plus missing names.
func runWide(r *eng.Run, kind string, n int) {
	names := make([]string, 0, n+len(pool))
	ch := make([]*nodeM, 0, n+len(pool))
	for i, p := range pool {
		names = append(names, p)
		ch = append(ch, terminals[i])
	}
	for i := 0; i < n; i++ {
		nm := fmt.Sprintf("w%03d", i)
		names = append(names, nm)
		ch = append(ch, rawFile([]byte("wide "+nm)))
	}
	root := buildDir(kind, names, ch)
	ki := 0
	for i := range dirKinds {
		if dirKinds[i] == kind {
			ki = i
		}
	}
	// marker spine (negative kind) so that a replay re-runs this wide directory
	sp := spine{Pool: len(pool), Levels: []level{{Kind: -1 - ki, Names: []int{n}, Follow: -1}}}
	var qs [][]string
	for _, nm := range names {
		qs = append(qs, []string{nm})
	}
	for i := 0; i < n; i++ {
		qs = append(qs, []string{fmt.Sprintf("m%03d", i)}, []string{fmt.Sprintf("m%03d", i), "zz"})
	}
	eng.ParFor(len(qs), func(i int) {
		vs, out := check(r, sp, root, qs[i])
		for _, v := range vs {
			r.Report(v)
		}
		r.Outcome(out)
	})
	r.Eval(len(qs) * 3)
	r.Add("wide_paths", len(qs))
	r.Distinct(fmt.Sprintf("wide/%s/%d", kind, n))
}

type plan struct {
	pool, fan, depth int
}

func body(r *eng.Run) {
	r.Rule("every spine of directories (depth d, each level: kind in {basic, HAMT width 8, HAMT width 256} x every subset of the name pool with <= F names x every choice of the entry holding the next level; the other entries are fixed raw/dag-pb/two-block files and sub-directories whose CIDs differ per name); for every directory on the spine every pool name is looked up (existing and missing), plus continuations below missing names, below files and inside terminal sub-directories, through ResolveToLastNode, ResolvePath and ResolvePathComponents; a case is non-trivial when it has >= 1 path segment; additionally wide one-level directories with every present and as many absent names")
	r.Assume("the DAG builders (uio.NewBasicDirectory / NewHAMTDirectory, merkledag) store each child under the name given to AddChild (checked separately by C15)")
	r.Assume("block storage fails with ctx.Err() when called with a finished context (modelled by a wrapper around the in-memory blockstore), like any real datastore")
	r.Assume("resolution of a path reads only the directories along it, so siblings are fixed per name instead of being enumerated as arbitrary subtrees")
	plans := eng.Pick(r, []plan{{6, 3, 1}, {5, 2, 2}}, []plan{{8, 3, 1}, {7, 3, 2}, {4, 2, 3}})
	r.Set("plans_pool_fan_depth", plans)
	for _, pl := range plans {
		setup(pl.pool)
		mids := levelConfigs(pl.fan, true)
		lasts := levelConfigs(pl.fan, false)
		r.Set(fmt.Sprintf("level_configs_pool%d_fan%d", pl.pool, pl.fan), map[string]int{"with_follow": len(mids), "last": len(lasts)})
		// product index over the upper levels; innermost loop over last-level configs
		upper := 1
		for i := 1; i < pl.depth; i++ {
			upper *= len(mids)
		}
		eng.ParFor(upper*len(lasts), func(full int) {
			if r.Expired() {
				return
			}
			lv := make([]level, pl.depth)
			lv[pl.depth-1] = lasts[full%len(lasts)]
			x := full / len(lasts)
			for i := pl.depth - 2; i >= 0; i-- {
				lv[i] = mids[x%len(mids)]
				x /= len(mids)
			}
			sp := spine{Pool: pl.pool, Levels: lv}
			runSpine(r, sp)
			r.Distinct(spineKey(sp))
			if full%997 == 0 {
				r.Sample(sp)
			}
		})
		r.Add("spines", upper*len(lasts))
		if r.Expired() {
			r.Incomplete("budget expired during spine enumeration")
			return
		}
	}
	// wide directories
	setup(eng.Pick(r, 6, 8))
	for _, w := range []struct {
		kind string
		n    int
	}{{"basic", 40}, {"hamt8", 12}, {"hamt8", eng.Pick(r, 60, 400)}, {"hamt256", eng.Pick(r, 300, 3000)}} {
		runWide(r, w.kind, w.n)
	}
}

func replay(r *eng.Run, raw json.RawMessage) {
	var rec struct {
		Spine spine    `json:"spine"`
		Segs  []string `json:"segs"`
	}
	must(json.Unmarshal(raw, &rec))
	setup(rec.Spine.Pool)
	if len(rec.Spine.Levels) == 1 && rec.Spine.Levels[0].Kind < 0 {
		// wide directory case: rerun the whole wide directory
		runWide(r, dirKinds[-1-rec.Spine.Levels[0].Kind], rec.Spine.Levels[0].Names[0])
		return
	}
	root := rec.Spine.build()
	vs, out := check(r, rec.Spine, root, rec.Segs)
	fmt.Printf("replay: spine=%s segs=%q outcome=%s\n", spineKey(rec.Spine), rec.Segs, out)
	for _, v := range vs {
		r.Report(v)
	}
	r.Eval(3)
}

func main() {
	_ = sort.Strings
	eng.Main("C33", "exploration", body, replay)
}
