//go:build verif

// C38: tar extraction never touches anything outside the target.
//
// Every case builds a private sandbox S on disk
//
//	S/outside/victim        file 0600 "victim-content"
//	S/outside/dir/          dir  0700
//	S/outside/dir/file      file 0640 "inner"
//	S/target                absent | empty dir | populated dir | symlink | file
//
// , extracts one enumerated archive into S/target with
// the real tar.Extractor and compares a full lstat+content snapshot of S minus
// S/target/** taken before and after the extraction.
package main

import (
	"archive/tar"
	"bytes"
	"encoding/json"
	"fmt"
	"io"
	"os"
	"path/filepath"
	"regexp"
	"sort"
	"strings"
	"sync"
	"sync/atomic"
	"syscall"
	"time"

	btar "github.com/ipfs/boxo/tar"
	"github.com/ipfs/boxo/verifshim/eng"
)

type ent struct {
	Name string `json:"name"` // "$S" stands for the sandbox path
	Type string `json:"type"` // dir | file | symlink | hardlink | fifo
	Link string `json:"link,omitempty"`
	Mode int64  `json:"mode"`
	MT   int64  `json:"mtime,omitempty"` // unix seconds (tar cannot carry an unset mtime; 0 = epoch)
	Data string `json:"data,omitempty"`
	Cut  bool   `json:"cut,omitempty"` // the archive ends in the middle of this entry's data (truncated stream)
}

type tcase struct {
	Target string `json:"target"` // target state
	Ents   []ent  `json:"entries"`
}

const mt2005 = 1104537600

// ---------------------------------------------------------------- sandbox

func must(err error) {
	if err != nil {
		panic("sandbox setup: " + err.Error())
	}
}

// the process umask is cleared in setup(), so the modes given here are exact
func writeFile(p, data string, mode os.FileMode) {
	must(os.WriteFile(p, []byte(data), mode))
}

func mkdir(p string, mode os.FileMode) {
	must(os.Mkdir(p, mode))
}

var targetStates = []string{"absent", "emptydir", "populated", "symlink-to-outside-dir", "symlink-to-outside-file", "dangling-symlink-to-outside", "file"}

func mkSandbox(S, state string) {
	mkdir(S, 0o755)
	mkdir(S+"/outside", 0o750)
	mkdir(S+"/outside/dir", 0o700)
	writeFile(S+"/outside/victim", "victim-content", 0o600)
	writeFile(S+"/outside/dir/file", "inner", 0o640)
	T := S + "/target"
	switch state {
	case "absent":
	case "emptydir":
		mkdir(T, 0o755)
	case "populated":
		mkdir(T, 0o755)
		mkdir(T+"/d", 0o755)
		mkdir(T+"/dn", 0o755)
		writeFile(T+"/dn/k", "keep", 0o644)
		writeFile(T+"/f", "old", 0o644)
		must(os.Symlink("../outside/dir", T+"/l"))
		must(os.Symlink("../outside/victim", T+"/lf"))
		must(os.Symlink("../outside/new", T+"/ln"))
		must(os.Symlink(S+"/outside/dir", T+"/la"))
	case "symlink-to-outside-dir":
		must(os.Symlink("outside/dir", T))
	case "symlink-to-outside-file":
		must(os.Symlink("outside/victim", T))
	case "dangling-symlink-to-outside":
		must(os.Symlink("outside/new", T))
	case "file":
		writeFile(T, "old-target-file", 0o644)
	default:
		panic("unknown target state " + state)
	}
}

type obj struct {
	Kind  string
	Mode  uint32 // full st_mode
	Mtime int64  // ns
	Size  int64
	UID   uint32
	GID   uint32
	Nlink uint64
	Link  string
	Data  string
	List  string
}

// snapshot records every object of S except S/target/** (for S itself only
// type and listing minus "target": creating the target necessarily updates
// the mtime of its parent).
func snapshot(S string) map[string]obj {
	m := map[string]obj{}
	var rec func(abs, rel string)
	rec = func(abs, rel string) {
		fi, err := os.Lstat(abs)
		if err != nil {
			m[rel] = obj{Kind: "lstat-error: " + err.Error()}
			return
		}
		st := fi.Sys().(*syscall.Stat_t)
		o := obj{Mode: st.Mode, Mtime: fi.ModTime().UnixNano(), UID: st.Uid, GID: st.Gid}
		switch {
		case fi.Mode()&os.ModeSymlink != 0:
			o.Kind = "symlink"
			o.Link, _ = os.Readlink(abs)
		case fi.IsDir():
			o.Kind = "dir"
			des, err := os.ReadDir(abs)
			if err != nil {
				o.List = "readdir-error: " + err.Error()
			}
			names := []string{}
			for _, de := range des {
				if rel == "." && de.Name() == "target" {
					continue
				}
				names = append(names, de.Name())
			}
			sort.Strings(names)
			o.List = strings.Join(names, "\x00")
			if rel == "." {
				o = obj{Kind: "dir", List: o.List}
			}
			for _, n := range names {
				r := n
				if rel != "." {
					r = rel + "/" + n
				}
				rec(abs+"/"+n, r)
			}
		case fi.Mode().IsRegular():
			o.Kind = "file"
			o.Size = fi.Size()
			o.Nlink = uint64(st.Nlink)
			b, err := os.ReadFile(abs)
			if err != nil {
				o.Data = "read-error: " + err.Error()
			} else {
				o.Data = string(b)
			}
		default:
			o.Kind = "other:" + fi.Mode().Type().String()
		}
		m[rel] = o
	}
	rec(S, ".")
	return m
}

type odiff struct {
	rel, changed, detail string
}

func diffSnap(a, b map[string]obj) []odiff {
	var ds []odiff
	keys := map[string]bool{}
	for k := range a {
		keys[k] = true
	}
	for k := range b {
		keys[k] = true
	}
	ks := []string{}
	for k := range keys {
		ks = append(ks, k)
	}
	sort.Strings(ks)
	for _, k := range ks {
		x, inA := a[k]
		y, inB := b[k]
		switch {
		case !inB:
			ds = append(ds, odiff{k, "removed", fmt.Sprintf("%s (%s) no longer exists", k, x.Kind)})
		case !inA:
			ds = append(ds, odiff{k, "created", fmt.Sprintf("%s (%s, mode %#o) was created outside the target", k, y.Kind, y.Mode)})
		default:
			add := func(ch, d string) { ds = append(ds, odiff{k, ch, k + ": " + d}) }
			if x.Kind != y.Kind {
				add("type", fmt.Sprintf("type %s -> %s", x.Kind, y.Kind))
				continue
			}
			if x.Mode != y.Mode {
				add("mode", fmt.Sprintf("st_mode %#o -> %#o", x.Mode, y.Mode))
			}
			if x.Mtime != y.Mtime {
				add("mtime", fmt.Sprintf("mtime %s -> %s", time.Unix(0, x.Mtime).UTC().Format(time.RFC3339Nano), time.Unix(0, y.Mtime).UTC().Format(time.RFC3339Nano)))
			}
			if x.Data != y.Data || x.Size != y.Size {
				add("content", fmt.Sprintf("content %q -> %q", x.Data, y.Data))
			}
			if x.Link != y.Link {
				add("link-target", fmt.Sprintf("link %q -> %q", x.Link, y.Link))
			}
			if x.UID != y.UID || x.GID != y.GID {
				add("owner", fmt.Sprintf("owner %d:%d -> %d:%d", x.UID, x.GID, y.UID, y.GID))
			}
			if x.Nlink != y.Nlink {
				add("nlink", fmt.Sprintf("nlink %d -> %d", x.Nlink, y.Nlink))
			}
			if x.List != y.List {
				add("listing", fmt.Sprintf("entries %q -> %q", strings.Split(x.List, "\x00"), strings.Split(y.List, "\x00")))
			}
		}
	}
	return ds
}

// ---------------------------------------------------------------- archive

var typeflag = map[string]byte{"dir": tar.TypeDir, "file": tar.TypeReg, "symlink": tar.TypeSymlink, "hardlink": tar.TypeLink, "fifo": tar.TypeFifo}

func buildTar(S string, es []ent) ([]byte, error) {
	var buf bytes.Buffer
	w := tar.NewWriter(&buf)
	for _, e := range es {
		h := &tar.Header{
			Name:     strings.ReplaceAll(e.Name, "$S", S),
			Typeflag: typeflag[e.Type],
			Linkname: strings.ReplaceAll(e.Link, "$S", S),
			Mode:     e.Mode,
			ModTime:  time.Unix(e.MT, 0),
		}
		if e.Type == "file" {
			h.Size = int64(len(e.Data))
		}
		if err := w.WriteHeader(h); err != nil {
			return nil, err
		}
		if e.Type == "file" {
			d := []byte(e.Data)
			if e.Cut {
				if _, err := w.Write(d[:len(d)/2]); err != nil {
					return nil, err
				}
				return buf.Bytes(), nil // truncated archive: no padding, no trailer
			}
			if _, err := w.Write(d); err != nil {
				return nil, err
			}
		}
	}
	if err := w.Close(); err != nil {
		return nil, err
	}
	return buf.Bytes(), nil
}

type countReader struct {
	r io.Reader
	n int
}

func (c *countReader) Read(p []byte) (int, error) {
	n, err := c.r.Read(p)
	c.n += n
	return n, err
}

// ---------------------------------------------------------------- one case

type result struct {
	built    bool
	ok       bool   // Extract returned nil
	errClass string // normalised error
	prunable bool   // failed without reading up to the end of the archive
	viols    []*eng.Violation
	outcome  string
}

var (
	scratch  string
	slots    chan int
	reDigits = regexp.MustCompile(`[0-9]{5,}`)
)

// dirThenSymlink: a non-root directory entry is followed later by a symlink
// entry with the same name (the directory's metadata update is deferred and
// applied to the path after the symlink replaced it).
func dirThenSymlink(es []ent) bool {
	for i := 1; i < len(es); i++ {
		if es[i].Type != "dir" {
			continue
		}
		for j := i + 1; j < len(es); j++ {
			if es[j].Type == "symlink" && es[j].Name == es[i].Name {
				return true
			}
		}
	}
	return false
}

func objClass(rel string) string {
	switch rel {
	case ".", "outside", "outside/victim", "outside/dir", "outside/dir/file":
		return rel
	}
	return "new-object-in:" + filepath.Dir(rel)
}

func runCase(c *tcase) *result {
	res := &result{}
	// one private parent directory per concurrently running case, so that
	// parallel cases do not contend on one directory inode
	slot := <-slots
	box := filepath.Join(scratch, "c38", fmt.Sprint("w", slot))
	S := box + "/S"
	defer func() {
		os.RemoveAll(S)
		slots <- slot
	}()
	mkSandbox(S, c.Target)
	data, err := buildTar(S, c.Ents)
	if err != nil {
		res.outcome = "unbuildable: " + strings.ReplaceAll(err.Error(), S, "$S")
		return res
	}
	res.built = true
	before := snapshot(S)
	cr := &countReader{r: bytes.NewReader(data)}
	var xerr error
	pv := eng.Guard("Extract", func() {
		x := &btar.Extractor{Path: S + "/target"}
		xerr = x.Extract(cr)
	})
	after := snapshot(S)
	res.ok = pv == nil && xerr == nil
	if xerr != nil {
		e := strings.ReplaceAll(xerr.Error(), S, "$S")
		res.errClass = reDigits.ReplaceAllString(e, "N")
		res.prunable = cr.n <= len(data)-1024
	}
	pat := fmt.Sprint(dirThenSymlink(c.Ents))
	rs := "ok"
	if !res.ok {
		rs = "error"
	}
	describe := func() string {
		var sb strings.Builder
		fmt.Fprintf(&sb, "target state: %s; Extract result: %v\narchive entries:\n", c.Target, xerr)
		for i, e := range c.Ents {
			fmt.Fprintf(&sb, "  %d. %-8s %q", i, e.Type, e.Name)
			if e.Link != "" {
				fmt.Fprintf(&sb, " -> %q", e.Link)
			}
			if e.Cut {
				sb.WriteString(" [archive truncated inside this entry's data]")
			}
			fmt.Fprintf(&sb, " mode=%#o mtime=%d\n", e.Mode, e.MT)
		}
		return sb.String()
	}
	if pv != nil {
		pv.Features = map[string]string{"target": c.Target}
		pv.Replay = c
		res.viols = append(res.viols, pv)
	}
	ds := diffSnap(before, after)
	sum := []string{}
	for _, d := range ds {
		v := eng.V("outside-object-"+kindOf(d.changed), "Extract", d.detail+"\n"+describe(),
			"changed", d.changed, "object", objClass(d.rel), "deferred_dir_then_symlink_same_name", pat, "extract_result", rs)
		v.Replay = c
		res.viols = append(res.viols, v)
		sum = append(sum, d.changed+"@"+objClass(d.rel))
	}
	res.outcome = c.Target + "|" + rs + "|" + res.errClass + "|" + strings.Join(sum, ",")
	return res
}

func kindOf(changed string) string {
	switch changed {
	case "created", "removed":
		return changed
	}
	return "modified"
}

// ---------------------------------------------------------------- alphabet

func depthOf(name string) int { return strings.Count(name, "/") } // "r/n" -> 1 level below the target

func up(name string) string { return strings.Repeat("../", depthOf(name)) }

// names below the root "r". In a target that starts without content every
// valid name is just a fresh name, so three of them (two siblings and a child)
// are enough; the populated target has a name for every pre-existing object
// kind (empty dir d, non-empty dir dn, file f, symlinks l/lf/ln/la).
var (
	freshNames     = []string{"r/n", "r/n/x", "r/m"}
	populatedNames = []string{"r/d", "r/d/x", "r/dn", "r/dn/k", "r/f", "r/l", "r/l/x", "r/lf", "r/ln", "r/la", "r/n", "r/n/x"}
	invalidNames   = []string{
		"r/../x", "r/../../S/outside/x", "$S/outside/abs", "/r/n", "r//d", "r/./d", "r/d/", "other/x", "r", "rr/x", "r/..",
		"../outside/victim", "r/d/../../outside/victim", "r/n/../../../S/outside/victim", "", ".", "..", `r/n\..\x`,
	}
	invalidFew = []string{"r/../x", "$S/outside/abs", "r//d", "other/x", "r", "../outside/victim", ""}
)

func validEntries(names []string, rich bool) []ent {
	var a []ent
	for _, n := range names {
		metas := [][2]int64{{0, 0}, {0o777, 0}, {0o777, mt2005}}
		if rich {
			metas = append(metas, [2]int64{0, mt2005}, [2]int64{0o4755, mt2005})
		}
		for _, m := range metas {
			a = append(a, ent{Name: n, Type: "dir", Mode: m[0], MT: m[1]})
		}
		a = append(a, ent{Name: n, Type: "file", Mode: 0o644, MT: mt2005, Data: "new"})
		a = append(a, ent{Name: n, Type: "symlink", Link: "$S/outside/victim", Mode: 0o777, MT: mt2005})
		a = append(a, ent{Name: n, Type: "symlink", Link: up(n) + "outside/dir", Mode: 0, MT: 0})
		a = append(a, ent{Name: n, Type: "symlink", Link: ".", Mode: 0o777, MT: 0})
		if rich {
			a = append(a, ent{Name: n, Type: "symlink", Link: up(n) + "outside/new", Mode: 0o777, MT: mt2005})
			a = append(a, ent{Name: n, Type: "file", Mode: 0, MT: 0, Data: ""})
			a = append(a, ent{Name: n, Type: "symlink", Link: up(n) + "outside/victim", Mode: 0o777, MT: 0})
			a = append(a, ent{Name: n, Type: "symlink", Link: "d", Mode: 0o777, MT: mt2005})
		}
	}
	return a
}

func invalidEntries(all bool) []ent {
	var a []ent
	ns := invalidFew
	if all {
		ns = invalidNames
	}
	for _, n := range ns {
		a = append(a, ent{Name: n, Type: "file", Mode: 0o777, MT: mt2005, Data: "evil"})
	}
	a = append(a, ent{Name: "r/n", Type: "hardlink", Link: "$S/outside/victim", Mode: 0o777, MT: mt2005})
	a = append(a, ent{Name: "r/..", Type: "dir", Mode: 0o777, MT: mt2005})
	a = append(a, ent{Name: "r/n", Type: "file", Mode: 0o644, MT: mt2005, Data: strings.Repeat("0123456789", 300), Cut: true})
	if all {
		a = append(a, ent{Name: "r/f", Type: "hardlink", Link: "../outside/victim", Mode: 0o777, MT: mt2005})
		a = append(a, ent{Name: "r/n", Type: "fifo", Mode: 0o777, MT: mt2005})
		for _, n := range []string{"r/../x", "..", "r", "$S/outside/dir", "r/d/"} {
			a = append(a, ent{Name: n, Type: "dir", Mode: 0o777, MT: mt2005})
		}
		a = append(a, ent{Name: "r/../x", Type: "symlink", Link: "$S/outside/victim", Mode: 0o777, MT: mt2005})
	}
	return a
}

// after a root that is not a directory every further entry is refused by the
// same check; three entries of different types are kept.
var afterNonDirRoot = []ent{
	{Name: "r/n", Type: "dir", Mode: 0o777, MT: mt2005},
	{Name: "r/n", Type: "file", Mode: 0o777, MT: mt2005, Data: "evil"},
	{Name: "r/n", Type: "symlink", Link: "$S/outside/victim", Mode: 0o777, MT: mt2005},
}

type alphaFn func(c *tcase, level int) []ent

// main alphabet: depends on the target state (names) and on the level (the
// complete list of refused names is used for the first entry after the root;
// their refusal does not depend on the state, so later levels keep one name
// per refusal reason).
func mainAlphabet(rich bool) alphaFn {
	cache := map[string][]ent{}
	for _, pop := range []bool{false, true} {
		for _, first := range []bool{false, true} {
			names := freshNames
			if pop {
				names = populatedNames
			}
			cache[fmt.Sprint(pop, first)] = append(validEntries(names, rich), invalidEntries(first)...)
		}
	}
	return func(c *tcase, level int) []ent {
		if c.Ents[0].Type != "dir" {
			return afterNonDirRoot
		}
		return cache[fmt.Sprint(c.Target == "populated", level == 0)]
	}
}

// reduced alphabet for longer words: the entries around which directory
// metadata is deferred and paths change their type.
func reducedAlphabet() []ent {
	var a []ent
	for _, n := range []string{"r/n", "r/n/x", "r/l", "r/d"} {
		a = append(a, ent{Name: n, Type: "dir", Mode: 0, MT: 0})
		a = append(a, ent{Name: n, Type: "dir", Mode: 0o777, MT: mt2005})
		a = append(a, ent{Name: n, Type: "file", Mode: 0o644, MT: mt2005, Data: "new"})
		a = append(a, ent{Name: n, Type: "symlink", Link: "$S/outside/victim", Mode: 0o777, MT: mt2005})
		a = append(a, ent{Name: n, Type: "symlink", Link: up(n) + "outside/dir", Mode: 0o777, MT: 0})
	}
	a = append(a, ent{Name: "r/l/x", Type: "file", Mode: 0o777, MT: mt2005, Data: "evil"})
	a = append(a, ent{Name: "r/../x", Type: "file", Mode: 0o777, MT: mt2005, Data: "evil"})
	a = append(a, ent{Name: "r/n/x/y", Type: "dir", Mode: 0o755, MT: mt2005})
	return a
}

func tinyAlphabet() []ent {
	var a []ent
	for _, n := range []string{"r/n", "r/n/x"} {
		a = append(a, ent{Name: n, Type: "dir", Mode: 0o777, MT: mt2005})
		a = append(a, ent{Name: n, Type: "file", Mode: 0o644, MT: mt2005, Data: "new"})
		a = append(a, ent{Name: n, Type: "symlink", Link: up(n) + "outside/dir", Mode: 0o777, MT: mt2005})
	}
	a = append(a, ent{Name: "r/m", Type: "dir", Mode: 0o711, MT: 0})
	a = append(a, ent{Name: "r/../x", Type: "file", Mode: 0o777, MT: mt2005, Data: "evil"})
	return a
}

func fixed(a []ent) alphaFn { return func(*tcase, int) []ent { return a } }

func roots(thorough bool) []ent {
	rs := []ent{
		{Name: "r", Type: "dir", Mode: 0, MT: 0},
		{Name: "r", Type: "dir", Mode: 0o755, MT: mt2005},
		{Name: "r", Type: "file", Mode: 0o644, MT: mt2005, Data: "rootfile"},
		{Name: "r", Type: "file", Mode: 0o644, MT: mt2005, Data: strings.Repeat("0123456789", 300), Cut: true},
		{Name: "lf", Type: "file", Mode: 0o777, MT: mt2005, Data: "rootfile"},
		{Name: "l", Type: "file", Mode: 0o777, MT: mt2005, Data: "rootfile"},
		{Name: "d", Type: "file", Mode: 0o777, MT: 0, Data: "rootfile"},
		{Name: "dn", Type: "file", Mode: 0o777, MT: 0, Data: "rootfile"},
		{Name: "r", Type: "symlink", Link: "$S/outside/victim", Mode: 0o777, MT: mt2005},
		{Name: "r", Type: "symlink", Link: "outside/dir", Mode: 0o777, MT: mt2005},
		{Name: "l", Type: "symlink", Link: "../outside/victim", Mode: 0o777, MT: mt2005},
		{Name: "lf", Type: "symlink", Link: "../outside/dir", Mode: 0, MT: 0},
		{Name: "r", Type: "hardlink", Link: "$S/outside/victim", Mode: 0o777, MT: mt2005},
		{Name: "", Type: "dir", Mode: 0o777, MT: mt2005},
		{Name: ".", Type: "dir", Mode: 0o777, MT: mt2005},
		{Name: "..", Type: "dir", Mode: 0o777, MT: mt2005},
		{Name: "..", Type: "file", Mode: 0o777, MT: mt2005, Data: "evil"},
		{Name: "..", Type: "symlink", Link: "$S/outside/victim", Mode: 0o777, MT: mt2005},
		{Name: "a/b", Type: "dir", Mode: 0o777, MT: mt2005},
		{Name: "../outside/victim", Type: "file", Mode: 0o777, MT: mt2005, Data: "evil"},
		{Name: "$S/outside/victim", Type: "file", Mode: 0o777, MT: mt2005, Data: "evil"},
		{Name: "r/", Type: "dir", Mode: 0o777, MT: mt2005},
	}
	if thorough {
		rs = append(rs,
			ent{Name: "r", Type: "dir", Mode: 0o777, MT: 0},
			ent{Name: "r", Type: "dir", Mode: 0o4755, MT: mt2005},
			ent{Name: "la", Type: "file", Mode: 0o777, MT: mt2005, Data: "rootfile"},
			ent{Name: "ln", Type: "file", Mode: 0o777, MT: mt2005, Data: "rootfile"},
			ent{Name: "ln", Type: "symlink", Link: "../outside/dir", Mode: 0o777, MT: mt2005},
		)
	}
	return rs
}

// ---------------------------------------------------------------- driver

type driver struct {
	r        *eng.Run
	mu       sync.Mutex
	outcomes map[string]int
}

func (d *driver) exec(c *tcase) *result {
	r := d.r
	res := runCase(c)
	r.Eval(1)
	unknown := 0
	for _, v := range res.viols {
		if !r.Report(v) {
			unknown++
		}
	}
	oc := res.outcome
	if len(res.viols) > 0 && unknown == 0 {
		oc = "known:" + oc
	}
	d.mu.Lock()
	if d.outcomes[oc] == 0 {
		r.Outcome(oc)
	}
	d.outcomes[oc]++
	d.mu.Unlock()
	if len(c.Ents) >= 2 || c.Target != "absent" {
		b, _ := json.Marshal(c)
		r.Distinct(string(b))
	}
	if res.ok {
		r.Add("extractions_succeeded", 1)
		for _, e := range c.Ents {
			if e.Type == "symlink" && strings.Contains(e.Link, "outside") {
				r.Add("succeeded_extractions_planting_symlink_to_outside", 1)
				break
			}
		}
	} else if res.built {
		r.Add("extractions_failed", 1)
	} else {
		r.Add("archives_unbuildable_with_archive_tar", 1)
	}
	if dirThenSymlink(c.Ents) {
		r.Add("words_with_dir_then_symlink_same_name", 1)
		if res.ok {
			r.Add("words_with_dir_then_symlink_same_name_extracted_ok", 1)
		}
	}
	return res
}

// explore runs the prefix tree: level 0 = all (target, root) pairs, level k =
// every successful word of level k-1 extended by every entry of alpha[k-1].
// A word whose extraction failed is not extended when the failing Extract
// returned before reading the end of the archive (then every extension is
// byte-identical up to the point where Extract stopped).
func explore(d *driver, tag string, targets []string, rootEnts []ent, depth int, alpha alphaFn) {
	r := d.r
	var cur []*tcase
	for _, t := range targets {
		for _, re := range rootEnts {
			cur = append(cur, &tcase{Target: t, Ents: []ent{re}})
		}
	}
	for level := 0; ; level++ {
		r.Set(fmt.Sprintf("%s_level%d_words", tag, level), len(cur))
		okv := make([]bool, len(cur))
		var pruned atomic.Int64
		eng.ParFor(len(cur), func(i int) {
			if r.Expired() {
				return
			}
			res := d.exec(cur[i])
			switch {
			case res.ok:
				okv[i] = true
			case res.built && !res.prunable:
				okv[i] = true // failed only at the very end: extensions are not covered by the argument above
			default:
				pruned.Add(1)
			}
		})
		if r.Expired() {
			r.Incomplete(fmt.Sprintf("%s: budget expired at level %d", tag, level))
			return
		}
		r.Set(fmt.Sprintf("%s_level%d_not_extended_after_error", tag, level), int(pruned.Load()))
		if level >= depth {
			return
		}
		var next []*tcase
		for i, c := range cur {
			if !okv[i] || c.Ents[len(c.Ents)-1].Cut {
				continue // a truncated archive cannot be extended
			}
			for _, e := range alpha(c, level) {
				es := append(append(make([]ent, 0, len(c.Ents)+1), c.Ents...), e)
				next = append(next, &tcase{Target: c.Target, Ents: es})
			}
		}
		cur = next
	}
}

func setup() {
	scratch = os.Getenv("VERIF_SCRATCH")
	if scratch == "" {
		scratch, _ = os.Getwd()
	}
	syscall.Umask(0)
	slots = make(chan int, 64)
	for i := 0; i < 64; i++ {
		must(os.MkdirAll(filepath.Join(scratch, "c38", fmt.Sprint("w", i)), 0o755))
		slots <- i
	}
}

func main() {
	eng.Main("C38", "exploration", func(r *eng.Run) {
		setup()
		r.Rule("E2 enumeration of archives as a prefix tree: (7 target states) x (root entries) x all words over the entry alphabet up to the length bound; a word is extended only if its extraction succeeded (a failed Extract returns at the failing entry without reading further, checked with a counting reader). Every word is extracted by the real Extractor into a fresh on-disk sandbox; oracle: lstat+content snapshot (type, st_mode, mtime, size, content, link target, owner, nlink, listing) of everything in the sandbox outside target/** identical before and after, whether Extract fails or not. A case is non-trivial when it has >= 2 entries or a pre-existing target.")
		r.Assume("kernel file-system semantics (ext4/tmpfs) and archive/tar reader/writer are correct; names containing NUL cannot be produced by archive/tar and are rejected by its reader, so they are not enumerated")
		r.Assume("the process runs as root: permission bits do not protect outside objects, so every write-through is observable")
		r.Assume("atime and ctime are not compared (ctime has jiffy resolution and cannot be preset); no concurrent modification of the sandbox (TOCTOU races are out of scope)")
		d := &driver{r: r, outcomes: map[string]int{}}
		th := r.Thorough()
		ma := mainAlphabet(th)
		probe := func(t string, lvl int) int {
			return len(ma(&tcase{Target: t, Ents: []ent{{Name: "r", Type: "dir"}}}, lvl))
		}
		r.Set("alphabet_main_fresh_target_first_entry", probe("absent", 0))
		r.Set("alphabet_main_fresh_target_later_entries", probe("absent", 1))
		r.Set("alphabet_main_populated_target_first_entry", probe("populated", 0))
		r.Set("alphabet_main_populated_target_later_entries", probe("populated", 1))
		r.Set("alphabet_reduced", len(reducedAlphabet()))
		r.Set("alphabet_tiny", len(tinyAlphabet()))
		r.Set("target_states", len(targetStates))
		rs := roots(th)
		r.Set("root_entries", len(rs))
		dirRoot := []ent{rs[1]} // dir "r" mode 0755 mtime 2005
		live := []string{"absent", "emptydir", "populated"}
		// 1. all target states x all roots x words of <= 2 entries over the main alphabet
		explore(d, "main", targetStates, rs, 2, ma)
		// 2. longer words over smaller alphabets below a directory root
		if th {
			explore(d, "main3", live[:2], dirRoot, 3, ma)
			explore(d, "reduced4", live, dirRoot, 4, fixed(reducedAlphabet()))
			explore(d, "tiny", live[:1], dirRoot, 6, fixed(tinyAlphabet()))
		} else {
			explore(d, "reduced", live[:1], dirRoot, 3, fixed(reducedAlphabet()))
			explore(d, "tiny", live[:1], dirRoot, 4, fixed(tinyAlphabet()))
		}
		d.mu.Lock()
		r.Set("outcome_counts", d.outcomes)
		d.mu.Unlock()
		r.Sample(tcase{Target: "populated", Ents: []ent{rs[1], {Name: "r/n", Type: "dir", Mode: 0o777}, {Name: "r/n", Type: "symlink", Link: "$S/outside/victim", Mode: 0o777, MT: mt2005}}})
		os.RemoveAll(filepath.Join(scratch, "c38"))
	}, func(r *eng.Run, raw json.RawMessage) {
		setup()
		var c tcase
		if err := json.Unmarshal(raw, &c); err != nil {
			fmt.Fprintln(os.Stderr, "bad replay:", err)
			os.Exit(2)
		}
		res := runCase(&c)
		r.Eval(1)
		r.Outcome(res.outcome)
		for _, v := range res.viols {
			r.Report(v)
		}
		if len(res.viols) == 0 {
			fmt.Println("replay: no violation, outcome", res.outcome)
		}
	})
}
