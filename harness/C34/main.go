//go:build verif

// C34: bitswap messages round-trip through the v1/v0 wire formats and every
// block parsed from wire bytes carries a CID computed from its own data;
// malformed frames are rejected, never half-parsed.
package main

import (
	"bytes"
	"encoding/binary"
	"encoding/hex"
	"encoding/json"
	"fmt"
	"math"
	"sort"
	"strings"
	"sync"
	"sync/atomic"

	bsmsg "github.com/ipfs/boxo/bitswap/message"
	pb "github.com/ipfs/boxo/bitswap/message/pb"
	"github.com/ipfs/boxo/verifshim/eng"
	blocks "github.com/ipfs/go-block-format"
	cid "github.com/ipfs/go-cid"
	msgio "github.com/libp2p/go-msgio"
	mh "github.com/multiformats/go-multihash"
	"google.golang.org/protobuf/proto"
)

// ---------------------------------------------------------------------- pools

var (
	pV0  = cid.Prefix{Version: 0, Codec: cid.DagProtobuf, MhType: mh.SHA2_256, MhLength: 32}
	pRaw = cid.Prefix{Version: 1, Codec: cid.Raw, MhType: mh.SHA2_256, MhLength: 32}
	pPB  = cid.Prefix{Version: 1, Codec: cid.DagProtobuf, MhType: mh.SHA2_256, MhLength: 32}
	pT16 = cid.Prefix{Version: 1, Codec: cid.Raw, MhType: mh.SHA2_256, MhLength: 16}
	pID  = cid.Prefix{Version: 1, Codec: cid.Raw, MhType: mh.IDENTITY, MhLength: -1}
)

func mkBlock(p cid.Prefix, data string) blocks.Block {
	c, err := p.Sum([]byte(data))
	if err != nil {
		panic(err)
	}
	b, err := blocks.NewBlockWithCid([]byte(data), c)
	if err != nil {
		panic(err)
	}
	return b
}

var (
	blockPool []blocks.Block
	blockName []string
	wantCids  []cid.Cid
	presCids  []cid.Cid
)

func initPools(thorough bool) {
	add := func(name string, p cid.Prefix, d string) {
		blockPool = append(blockPool, mkBlock(p, d))
		blockName = append(blockName, name)
	}
	add("a.v0", pV0, "a")
	add("a.v1pb", pPB, "a")
	add("a.v1raw", pRaw, "a")
	add("a.trunc16", pT16, "a")
	add("a.identity", pID, "a")
	add("empty.v1raw", pRaw, "")
	add("empty.identity", pID, "")
	add("bb.v1raw", pRaw, "bb")
	if thorough {
		add("bb.v0", pV0, "bb")
		add("bb.identity", pID, "bb")
		add("empty.v0", pV0, "")
	}
	wantCids = []cid.Cid{blockPool[0].Cid(), blockPool[1].Cid(), blockPool[7].Cid(), mkBlock(pID, "xy").Cid()}
	if thorough {
		wantCids = append(wantCids, blockPool[3].Cid())
	}
	presCids = []cid.Cid{blockPool[0].Cid(), blockPool[2].Cid(), blockPool[4].Cid(), blockPool[1].Cid(), mkBlock(pRaw, "ccc").Cid()}
}

// ---------------------------------------------------------------------- cases

type WantOp struct {
	C      int   `json:"c"`
	P      int32 `json:"p"`
	T      int32 `json:"t"`
	Cancel bool  `json:"cancel"`
	SDH    bool  `json:"sdh"`
}

type BPOp struct {
	Blk  int   `json:"blk"`  // index into blockPool, -1 for a presence
	Pres int   `json:"pres"` // index into presCids
	T    int32 `json:"t"`    // presence type
}

type BigSpec struct {
	NW int `json:"nw"`
	NB int `json:"nb"`
	NP int `json:"np"`
}

type MsgCase struct {
	Full    bool     `json:"full"`
	Pending int32    `json:"pending"`
	Wants   []WantOp `json:"wants,omitempty"`
	BP      []BPOp   `json:"bp,omitempty"`
	Big     *BigSpec `json:"big,omitempty"`
}

type Replay struct {
	Kind string   `json:"kind"` // msg | wire
	Msg  *MsgCase `json:"msg,omitempty"`
	Hex  string   `json:"hex,omitempty"`
	Note string   `json:"note,omitempty"`
}

var bigPrefixes = []cid.Prefix{pRaw, pV0, pID, pT16, pPB}

func build(mc *MsgCase) bsmsg.BitSwapMessage {
	m := bsmsg.New(mc.Full)
	for _, w := range mc.Wants {
		bsmsg.VerifAddEntry(m, wantCids[w.C], w.P, w.Cancel, pb.Message_Wantlist_WantType(w.T), w.SDH)
	}
	for _, o := range mc.BP {
		if o.Blk >= 0 {
			m.AddBlock(blockPool[o.Blk])
		} else {
			m.AddBlockPresence(presCids[o.Pres], pb.Message_BlockPresenceType(o.T))
		}
	}
	if b := mc.Big; b != nil {
		prios := []int32{0, 1, math.MaxInt32, -1, math.MinInt32, 7}
		for i := 0; i < b.NW; i++ {
			c := mkBlock(bigPrefixes[i%len(bigPrefixes)], fmt.Sprintf("want-%d", i)).Cid()
			bsmsg.VerifAddEntry(m, c, prios[i%len(prios)], i%3 == 0, pb.Message_Wantlist_WantType(i%2), i%5 < 2)
		}
		for i := 0; i < b.NB; i++ {
			m.AddBlock(mkBlock(bigPrefixes[i%len(bigPrefixes)], strings.Repeat(fmt.Sprintf("block-%d|", i), 1+i%4)))
		}
		for i := 0; i < b.NP; i++ {
			var c cid.Cid
			if i%3 == 0 { // collides with block i when i < NB
				c = mkBlock(bigPrefixes[i%len(bigPrefixes)], strings.Repeat(fmt.Sprintf("block-%d|", i), 1+i%4)).Cid()
			} else {
				c = mkBlock(bigPrefixes[i%len(bigPrefixes)], fmt.Sprintf("pres-%d", i)).Cid()
			}
			m.AddBlockPresence(c, pb.Message_BlockPresenceType(i%2))
		}
	}
	m.SetPendingBytes(mc.Pending)
	return m
}

// ------------------------------------------------------------------ snapshots

type wantVal struct {
	P      int32
	T      int32
	Cancel bool
	SDH    bool
}

type snap struct {
	Full    bool
	Pending int32
	Wants   map[string]wantVal
	Blocks  map[string]string
	Pres    map[string]int32
	dupes   string // a getter returned the same key twice
}

func newSnap() *snap {
	return &snap{Wants: map[string]wantVal{}, Blocks: map[string]string{}, Pres: map[string]int32{}}
}

func snapOf(m bsmsg.BitSwapMessage) *snap {
	s := newSnap()
	s.Full, s.Pending = m.Full(), m.PendingBytes()
	for _, e := range m.Wantlist() {
		k := e.Cid.KeyString()
		if _, dup := s.Wants[k]; dup {
			s.dupes = "wantlist"
		}
		s.Wants[k] = wantVal{e.Priority, int32(e.WantType), e.Cancel, e.SendDontHave}
	}
	for _, b := range m.Blocks() {
		k := b.Cid().KeyString()
		if _, dup := s.Blocks[k]; dup {
			s.dupes = "blocks"
		}
		s.Blocks[k] = string(b.RawData())
	}
	for _, p := range m.BlockPresences() {
		k := p.Cid.KeyString()
		if _, dup := s.Pres[k]; dup {
			s.dupes = "presences"
		}
		s.Pres[k] = int32(p.Type)
	}
	return s
}

func cidOfKey(k string) string {
	c, err := cid.Cast([]byte(k))
	if err != nil {
		return hex.EncodeToString([]byte(k))
	}
	return c.String()
}

func diffMap[V comparable](name string, a, b map[string]V) (string, string) {
	keys := map[string]bool{}
	for k := range a {
		keys[k] = true
	}
	for k := range b {
		keys[k] = true
	}
	ks := []string{}
	for k := range keys {
		ks = append(ks, k)
	}
	sort.Strings(ks)
	for _, k := range ks {
		va, oka := a[k]
		vb, okb := b[k]
		switch {
		case oka && !okb:
			return name, fmt.Sprintf("%s: %s=%v lost", name, cidOfKey(k), va)
		case !oka && okb:
			return name, fmt.Sprintf("%s: %s=%v appeared", name, cidOfKey(k), vb)
		case va != vb:
			return name, fmt.Sprintf("%s: %s is %v, want %v", name, cidOfKey(k), vb, va)
		}
	}
	return "", ""
}

// diffSnap compares got with want; fields limits the comparison.
func diffSnap(want, got *snap, v0 bool) (field, detail string) {
	if got.dupes != "" {
		return got.dupes, "getter returned a duplicate key in " + got.dupes
	}
	if f, d := diffMap("wantlist", want.Wants, got.Wants); f != "" {
		return f, d
	}
	if want.Full != got.Full {
		return "full", fmt.Sprintf("full is %v, want %v", got.Full, want.Full)
	}
	if v0 {
		wd, gd := map[string]bool{}, map[string]bool{}
		for _, d := range want.Blocks {
			wd[d] = true
		}
		for _, d := range got.Blocks {
			gd[d] = true
		}
		if f, d := diffMap("block-bytes", wd, gd); f != "" {
			return f, d
		}
		return "", ""
	}
	if f, d := diffMap("blocks", want.Blocks, got.Blocks); f != "" {
		return f, d
	}
	if f, d := diffMap("presences", want.Pres, got.Pres); f != "" {
		return f, d
	}
	if want.Pending != got.Pending {
		return "pending", fmt.Sprintf("pendingBytes is %d, want %d", got.Pending, want.Pending)
	}
	return "", ""
}

// selfCert: every block's CID must be recomputable from its own bytes.
func selfCert(m bsmsg.BitSwapMessage) string {
	for _, b := range m.Blocks() {
		c := b.Cid()
		c2, err := c.Prefix().Sum(b.RawData())
		if err != nil || !c2.Equals(c) {
			return fmt.Sprintf("block %s (data %q): Prefix().Sum(data) = %v, %v", c, b.RawData(), c2, err)
		}
	}
	return ""
}

// ------------------------------------------------- reference reading of a frame

func mergeWant(s *snap, k string, e *pb.Message_Wantlist_Entry) {
	nv := wantVal{e.Priority, int32(e.WantType), e.Cancel, e.SendDontHave}
	old, ok := s.Wants[k]
	if !ok {
		s.Wants[k] = nv
		return
	}
	// documented merge rules (comments of addEntry)
	if old.T == nv.T {
		old.P = nv.P // only change priority if the want is of the same type
	}
	if nv.Cancel {
		old.Cancel = true // only from "don't cancel" to "cancel"
	}
	if nv.SDH {
		old.SDH = true // only from "don't send" to "send" DONT_HAVE
	}
	if nv.T == int32(pb.Message_Wantlist_Block) && old.T == int32(pb.Message_Wantlist_Have) {
		old.T = nv.T // want-block overrides want-have
	}
	s.Wants[k] = old
}

// modelFromPB: what a well-formed protobuf message means; ok=false names the
// reason it is malformed.
func modelFromPB(m *pb.Message) (s *snap, malformed string) {
	s = newSnap()
	if m.Wantlist != nil {
		s.Full = m.Wantlist.Full
		for _, e := range m.Wantlist.Entries {
			if len(e.Block) == 0 {
				return nil, "entry-without-cid"
			}
			c, err := cid.Cast(e.Block)
			if err != nil {
				return nil, "entry-bad-cid"
			}
			mergeWant(s, c.KeyString(), e)
		}
	}
	for _, d := range m.Blocks {
		h, err := mh.Sum(d, mh.SHA2_256, -1)
		if err != nil {
			panic(err)
		}
		s.Blocks[cid.NewCidV0(h).KeyString()] = string(d)
	}
	for _, b := range m.Payload {
		p, err := cid.PrefixFromBytes(b.GetPrefix())
		if err != nil {
			return nil, "payload-bad-prefix"
		}
		c, err := p.Sum(b.GetData())
		if err != nil {
			return nil, "payload-unhashable-prefix"
		}
		s.Blocks[c.KeyString()] = string(b.GetData())
	}
	for _, p := range m.BlockPresences {
		if len(p.Cid) == 0 {
			return nil, "presence-without-cid"
		}
		c, err := cid.Cast(p.Cid)
		if err != nil {
			return nil, "presence-bad-cid"
		}
		if _, isBlock := s.Blocks[c.KeyString()]; isBlock {
			continue // a block supersedes a presence for the same CID
		}
		s.Pres[c.KeyString()] = int32(p.Type)
	}
	s.Pending = m.PendingBytes
	return s, ""
}

type wireCov struct {
	accepted, rejected atomic.Int64
}

var wcov wireCov

// checkWire feeds arbitrary bytes to FromNet. Rejection is always acceptable;
// acceptance requires a complete, well-formed frame and a complete message.
func checkWire(w []byte, outcomes map[string]bool) *eng.Violation {
	var m bsmsg.BitSwapMessage
	var n int
	var err error
	if pv := eng.Guard("FromNet", func() { m, n, err = bsmsg.FromNet(bytes.NewReader(w)) }); pv != nil {
		pv.Features = map[string]string{"input": "wire"}
		return pv
	}
	if err != nil {
		if outcomes != nil {
			wcov.rejected.Add(1)
			e := err.Error()
			if len(e) > 28 {
				e = e[:28]
			}
			outcomes["rejected: "+e] = true
		}
		if m != nil {
			return eng.V("error-with-message", "FromNet", fmt.Sprintf("FromNet returned error %v together with a message", err))
		}
		return nil
	}
	if outcomes != nil {
		wcov.accepted.Add(1)
	}
	if m == nil {
		return eng.V("nil-message-without-error", "FromNet", "FromNet returned nil, nil")
	}
	if sc := selfCert(m); sc != "" {
		return eng.V("block-cid-not-from-data", "FromNet", sc)
	}
	l, k := binary.Uvarint(w)
	if k <= 0 || l != uint64(n) || k+n > len(w) {
		return eng.V("accepted-malformed", "FromNet", fmt.Sprintf("accepted a frame whose length prefix (%d, %d bytes) does not describe %d available bytes (n=%d)", l, k, len(w)-max(k, 0), n), "why", "incomplete-frame")
	}
	var pm pb.Message
	if err := proto.Unmarshal(w[k:k+n], &pm); err != nil {
		return eng.V("accepted-malformed", "FromNet", "accepted a frame that is not a valid protobuf message: "+err.Error(), "why", "bad-protobuf")
	}
	want, why := modelFromPB(&pm)
	if why != "" {
		return eng.V("accepted-malformed", "FromNet", "accepted a malformed message: "+why, "why", why)
	}
	got := snapOf(m)
	if f, d := diffSnap(want, got, false); f != "" {
		return eng.V("partial-message", "FromNet", "parsed message differs from the content of the frame: "+d, "field", f)
	}
	if outcomes != nil {
		outcomes[fmt.Sprintf("accepted: w=%d b=%d p=%d", len(got.Wants), len(got.Blocks), len(got.Pres))] = true
	}
	return nil
}

// ----------------------------------------------------------------- round trip

func roundTrip(mc *MsgCase) *eng.Violation {
	var v *eng.Violation
	pv := eng.Guard("roundtrip", func() { v = roundTrip1(mc) })
	if pv != nil {
		pv.Features = map[string]string{"input": "message"}
		v = pv
	}
	if v != nil {
		c := *mc
		v.Replay = Replay{Kind: "msg", Msg: &c}
	}
	return v
}

func roundTrip1(mc *MsgCase) *eng.Violation {
	m := build(mc)
	orig := snapOf(m)
	for _, format := range []string{"v1", "v0"} {
		var buf bytes.Buffer
		var err error
		if format == "v1" {
			err = m.ToNetV1(&buf)
		} else {
			err = m.ToNetV0(&buf)
		}
		if err != nil {
			return eng.V("encode-error", "ToNet", err.Error(), "format", format)
		}
		wire := buf.Bytes()
		got, n, err := bsmsg.FromNet(bytes.NewReader(wire))
		if err != nil {
			return eng.V("roundtrip-rejected", "FromNet", fmt.Sprintf("FromNet(ToNet%s(m)) failed: %v", strings.ToUpper(format), err), "format", format)
		}
		if _, k := binary.Uvarint(wire); k <= 0 || k+n != len(wire) {
			return eng.V("roundtrip-length", "FromNet", fmt.Sprintf("FromNet consumed n=%d of a %d byte frame", n, len(wire)), "format", format)
		}
		if sc := selfCert(got); sc != "" {
			return eng.V("block-cid-not-from-data", "FromNet", sc, "format", format)
		}
		if f, d := diffSnap(orig, snapOf(got), format == "v0"); f != "" {
			return eng.V("roundtrip-mismatch", "FromNet", fmt.Sprintf("FromNet(ToNet%s(m)) differs from m: %s", strings.ToUpper(format), d), "format", format, "field", f)
		}
		if format == "v1" {
			// the frame we produced must also pass the independent reading
			if v := checkWire(wire, nil); v != nil {
				return v
			}
		}
	}
	return nil
}

// ----------------------------------------------------------------- wire bases

func frame(body []byte) []byte {
	out := binary.AppendUvarint(nil, uint64(len(body)))
	return append(out, body...)
}

func marshal(m *pb.Message) []byte {
	b, err := proto.MarshalOptions{Deterministic: true}.Marshal(m)
	if err != nil {
		panic(err)
	}
	return b
}

type base struct {
	name string
	wire []byte
}

func payload(p cid.Prefix, d string) *pb.Message_Block {
	return &pb.Message_Block{Prefix: mkBlock(p, d).Cid().Prefix().Bytes(), Data: []byte(d)}
}

func wireBases() []base {
	a0, b1, idc := wantCids[0], wantCids[2], wantCids[3]
	cc := presCids[4]
	rich := &pb.Message{
		Wantlist: &pb.Message_Wantlist{Full: true, Entries: []*pb.Message_Wantlist_Entry{
			{Block: a0.Bytes(), Priority: 1},
			{Block: b1.Bytes(), Priority: math.MaxInt32, WantType: pb.Message_Wantlist_Have, SendDontHave: true},
			{Block: a0.Bytes(), Priority: 9, Cancel: true, WantType: pb.Message_Wantlist_Have}, // duplicate: merges
			{Block: idc.Bytes(), Priority: -1},
		}},
		Payload:        []*pb.Message_Block{payload(pRaw, "a"), payload(pID, "xy"), payload(pT16, "bb")},
		BlockPresences: []*pb.Message_BlockPresence{{Cid: cc.Bytes(), Type: pb.Message_Have}, {Cid: mkBlock(pRaw, "a").Cid().Bytes(), Type: pb.Message_DontHave}, {Cid: a0.Bytes(), Type: pb.Message_DontHave}},
		PendingBytes:   77,
	}
	v0 := &pb.Message{
		Wantlist: &pb.Message_Wantlist{Entries: []*pb.Message_Wantlist_Entry{{Block: a0.Bytes(), Priority: 5}}},
		Blocks:   [][]byte{[]byte("a"), []byte("bb")},
	}
	mixed := &pb.Message{
		Wantlist:       &pb.Message_Wantlist{Entries: []*pb.Message_Wantlist_Entry{{Block: b1.Bytes(), Cancel: true}}},
		Blocks:         [][]byte{[]byte("a")},
		Payload:        []*pb.Message_Block{payload(pV0, "a"), payload(pPB, "a"), {Prefix: []byte{1, 0x55, 0x00, 0x05}, Data: []byte("xy")}},
		BlockPresences: []*pb.Message_BlockPresence{{Cid: cc.Bytes(), Type: 2}},
		PendingBytes:   -1,
	}
	mixedBody := append(marshal(mixed), 0x78, 0x01) // unknown field 15 (varint)
	tiny := &pb.Message{Payload: []*pb.Message_Block{payload(pT16, "z")}, BlockPresences: []*pb.Message_BlockPresence{{Cid: idc.Bytes(), Type: pb.Message_DontHave}}}
	return []base{
		{"v1-rich", frame(marshal(rich))},
		{"v0", frame(marshal(v0))},
		{"mixed-unknown-field", frame(mixedBody)},
		{"tiny", frame(marshal(tiny))},
	}
}

// oddFrames are checked as they are (not mutated).
func oddFrames() []base {
	mk := func(name string, m *pb.Message) base { return base{name, frame(marshal(m))} }
	return []base{
		{"empty-input", nil},
		{"empty-frame", frame(nil)},
		{"length-only", []byte{0x05}},
		{"non-minimal-length", append([]byte{0x80, 0x00}, 0)},
		{"huge-length", binary.AppendUvarint(nil, 1<<40)},
		mk("zero-length-digest-prefix", &pb.Message{Payload: []*pb.Message_Block{{Prefix: []byte{1, 0x55, 0x12, 0x00}, Data: []byte("a")}}}),
		mk("over-long-digest-prefix", &pb.Message{Payload: []*pb.Message_Block{{Prefix: []byte{1, 0x55, 0x12, 0x21}, Data: []byte("a")}}}),
		mk("unknown-hash-prefix", &pb.Message{Payload: []*pb.Message_Block{{Prefix: []byte{1, 0x55, 0x7f, 0x20}, Data: []byte("a")}}}),
		mk("v0-prefix-wrong-hash", &pb.Message{Payload: []*pb.Message_Block{{Prefix: []byte{0, 0x70, 0x13, 0x40}, Data: []byte("a")}}}),
		mk("v2-prefix", &pb.Message{Payload: []*pb.Message_Block{{Prefix: []byte{2, 0x55, 0x12, 0x20}, Data: []byte("a")}}}),
		mk("empty-prefix", &pb.Message{Payload: []*pb.Message_Block{{Data: []byte("a")}}}),
		mk("prefix-trailing-bytes", &pb.Message{Payload: []*pb.Message_Block{{Prefix: []byte{1, 0x55, 0x12, 0x20, 0xff, 0xff}, Data: []byte("a")}}}),
		mk("entry-empty-cid", &pb.Message{Wantlist: &pb.Message_Wantlist{Entries: []*pb.Message_Wantlist_Entry{{Priority: 1}}}}),
		mk("entry-cid-trailing-byte", &pb.Message{Wantlist: &pb.Message_Wantlist{Entries: []*pb.Message_Wantlist_Entry{{Block: append(wantCids[2].Bytes(), 0)}}}}),
		mk("presence-empty-cid", &pb.Message{BlockPresences: []*pb.Message_BlockPresence{{Type: 1}}}),
		mk("presence-truncated-cid", &pb.Message{BlockPresences: []*pb.Message_BlockPresence{{Cid: wantCids[2].Bytes()[:20]}}}),
		mk("good-then-bad-presence", &pb.Message{Payload: []*pb.Message_Block{payload(pRaw, "a")}, BlockPresences: []*pb.Message_BlockPresence{{Cid: presCids[4].Bytes()}, {Cid: []byte{1, 2}}}}),
		mk("nil-wantlist-full", &pb.Message{PendingBytes: 3}),
	}
}

// ----------------------------------------------------------------------- body

type counters struct {
	msgs, withDupAdds, withCollision, wire atomic.Int64
}

var cnt counters

func report(r *eng.Run, v *eng.Violation) {
	if v != nil {
		r.Report(v)
	}
}

func wireViolation(v *eng.Violation, w []byte, note string) *eng.Violation {
	if v != nil {
		v.Replay = Replay{Kind: "wire", Hex: hex.EncodeToString(w), Note: note}
	}
	return v
}

func enumWants(r *eng.Run, opts []WantOp, depth int, fps [][2]int64, bpCfgs [][]BPOp, allCombos bool) {
	n := 1
	for i := 0; i < depth; i++ {
		n *= len(opts)
	}
	var done atomic.Int64
	eng.ParFor(n, func(i int) {
		if r.Expired() {
			return
		}
		seq := make([]WantOp, depth)
		x, sum := i, 0
		for d := depth - 1; d >= 0; d-- {
			seq[d] = opts[x%len(opts)]
			sum += x%len(opts) + seq[d].C
			x /= len(opts)
		}
		distinctCids := map[int]bool{}
		for _, w := range seq {
			distinctCids[w.C] = true
		}
		run := func(fp [2]int64, bp []BPOp) {
			mc := &MsgCase{Full: fp[0] == 1, Pending: int32(fp[1]), Wants: seq, BP: bp}
			report(r, roundTrip(mc))
			done.Add(1)
		}
		if allCombos {
			for _, fp := range fps {
				for _, bp := range bpCfgs {
					run(fp, bp)
				}
			}
		} else {
			run(fps[sum%len(fps)], bpCfgs[(sum/len(fps))%len(bpCfgs)])
		}
		if len(distinctCids) < depth {
			cnt.withDupAdds.Add(1)
		}
		if depth >= 1 && i%997 == 0 {
			r.Distinct(fmt.Sprintf("W|%d|%d", depth, i))
			r.Outcome(fmt.Sprintf("wants: adds=%d distinct=%d", depth, len(distinctCids)))
		}
	})
	r.Eval(int(done.Load()))
	cnt.msgs.Add(done.Load())
	r.Set(fmt.Sprintf("want_sequences_depth%d", depth), n)
	if r.Expired() {
		r.Incomplete(fmt.Sprintf("budget expired in wantlist enumeration depth %d after %d messages", depth, done.Load()))
	}
}

func enumBP(r *eng.Run, ops []BPOp, depth int, fps [][2]int64, wantCfgs [][]WantOp) {
	n := 1
	for i := 0; i < depth; i++ {
		n *= len(ops)
	}
	var done atomic.Int64
	eng.ParFor(n, func(i int) {
		if r.Expired() {
			return
		}
		seq := make([]BPOp, depth)
		x := i
		for d := depth - 1; d >= 0; d-- {
			seq[d] = ops[x%len(ops)]
			x /= len(ops)
		}
		collide := false
		for _, a := range seq {
			for _, b := range seq {
				if a.Blk >= 0 && b.Blk < 0 && blockPool[a.Blk].Cid().Equals(presCids[b.Pres]) {
					collide = true
				}
			}
		}
		if collide {
			cnt.withCollision.Add(1)
		}
		for _, fp := range fps {
			for _, wc := range wantCfgs {
				mc := &MsgCase{Full: fp[0] == 1, Pending: int32(fp[1]), Wants: wc, BP: seq}
				report(r, roundTrip(mc))
				done.Add(1)
			}
		}
		if depth >= 1 && i%97 == 0 {
			r.Distinct(fmt.Sprintf("B|%d|%d", depth, i))
			nb := 0
			for _, a := range seq {
				if a.Blk >= 0 {
					nb++
				}
			}
			r.Outcome(fmt.Sprintf("bp: ops=%d blocks=%d collide=%v", depth, nb, collide))
		}
	})
	r.Eval(int(done.Load()))
	cnt.msgs.Add(done.Load())
	r.Set(fmt.Sprintf("block_presence_sequences_depth%d", depth), n)
	if r.Expired() {
		r.Incomplete(fmt.Sprintf("budget expired in block/presence enumeration depth %d after %d messages", depth, done.Load()))
	}
}

func mutateBases(r *eng.Run, bases []base, double map[string]bool) {
	type job struct {
		b   int
		off int
	}
	jobs := []job{}
	for bi, b := range bases {
		for off := range b.wire {
			jobs = append(jobs, job{bi, off})
		}
	}
	var mu sync.Mutex
	all := map[string]bool{}
	var n atomic.Int64
	eng.ParFor(len(jobs), func(j int) {
		if r.Expired() {
			return
		}
		b := bases[jobs[j].b]
		off := jobs[j].off
		w := append([]byte{}, b.wire...)
		local := map[string]bool{}
		cases := 0
		for v := 0; v < 256; v++ {
			if byte(v) == b.wire[off] {
				continue
			}
			w[off] = byte(v)
			if double[b.name] && off+1 < len(w) {
				for v2 := 0; v2 < 256; v2++ {
					if byte(v2) == b.wire[off+1] {
						continue
					}
					w[off+1] = byte(v2)
					report(r, wireViolation(checkWire(w, local), w, fmt.Sprintf("%s: bytes %d,%d := %02x %02x", b.name, off, off+1, v, v2)))
					cases++
				}
				w[off+1] = b.wire[off+1]
			}
			report(r, wireViolation(checkWire(w, local), w, fmt.Sprintf("%s: byte %d := %02x", b.name, off, v)))
			cases++
		}
		// truncation to off bytes, and deletion / duplication of the byte at off
		report(r, wireViolation(checkWire(b.wire[:off], local), b.wire[:off], fmt.Sprintf("%s: truncated to %d bytes", b.name, off)))
		del := append(append([]byte{}, b.wire[:off]...), b.wire[off+1:]...)
		report(r, wireViolation(checkWire(del, local), del, fmt.Sprintf("%s: byte %d deleted", b.name, off)))
		dup := append(append(append([]byte{}, b.wire[:off+1]...), b.wire[off]), b.wire[off+1:]...)
		report(r, wireViolation(checkWire(dup, local), dup, fmt.Sprintf("%s: byte %d duplicated", b.name, off)))
		cases += 3
		n.Add(int64(cases))
		r.Distinct(fmt.Sprintf("M|%s|%d", b.name, off))
		mu.Lock()
		for k := range local {
			all[k] = true
		}
		mu.Unlock()
	})
	for k := range all {
		r.Outcome("wire " + k)
	}
	r.Eval(int(n.Load()))
	cnt.wire.Add(n.Load())
	if r.Expired() {
		r.Incomplete("budget expired during wire mutation")
	}
}

func streamCheck(r *eng.Run) {
	// several frames on one connection are read one after the other
	cases := []*MsgCase{
		{Full: true, Pending: 5, Wants: []WantOp{{C: 0, P: 1}}, BP: []BPOp{{Blk: 2}, {Blk: -1, Pres: 4, T: 1}}},
		{Wants: []WantOp{{C: 2, P: -1, T: 1, SDH: true}}},
		{BP: []BPOp{{Blk: 4}, {Blk: 3}}},
		{},
	}
	var buf bytes.Buffer
	for _, mc := range cases {
		if err := build(mc).ToNetV1(&buf); err != nil {
			panic(err)
		}
	}
	rd := msgio.NewVarintReaderSize(bytes.NewReader(buf.Bytes()), 4<<20)
	for i, mc := range cases {
		got, _, err := bsmsg.FromMsgReader(rd)
		if err != nil {
			r.Report(eng.V("roundtrip-rejected", "FromMsgReader", fmt.Sprintf("message %d of a stream: %v", i, err), "format", "v1", "stream", "true"))
			return
		}
		if f, d := diffSnap(snapOf(build(mc)), snapOf(got), false); f != "" {
			v := eng.V("roundtrip-mismatch", "FromMsgReader", fmt.Sprintf("message %d of a stream: %s", i, d), "format", "v1", "field", f, "stream", "true")
			v.Replay = Replay{Kind: "msg", Msg: mc}
			r.Report(v)
		}
	}
	r.Eval(len(cases))
}

var ballast []byte

func body(r *eng.Run) {
	// tiny live heap, high allocation rate: an untouched ballast keeps GC cycles rare
	ballast = make([]byte, 64<<20)
	th := r.Thorough()
	initPools(th)
	r.Rule("messages: every sequence of <= D wantlist additions over the option product (CID x priority x type x cancel x sendDontHave) and every sequence of <= D AddBlock/AddBlockPresence operations over the block/presence pools, crossed with full x pendingBytes; wire: every single-byte substitution, truncation, byte deletion and duplication at every offset of the base frames; a message case is non-trivial when it has >= 1 operation, a wire case when it differs from the base frame")
	r.Assume("google.golang.org/protobuf, go-cid, go-multihash, go-msgio, go-block-format are correct")
	r.Assume("round-trip messages contain only blocks whose CID matches their data")

	prios := []int32{0, 1, math.MaxInt32, -1}
	types := []int32{0, 1}
	if th {
		types = []int32{0, 1, 2}
	}
	var wopts []WantOp
	for c := range wantCids {
		for _, p := range prios {
			for _, t := range types {
				for _, ca := range []bool{false, true} {
					for _, s := range []bool{false, true} {
						wopts = append(wopts, WantOp{c, p, t, ca, s})
					}
				}
			}
		}
	}
	r.Set("want_options", len(wopts))
	fps := [][2]int64{{0, 0}, {1, 1}, {0, -1}, {1, math.MaxInt32}}
	bpCfgs := [][]BPOp{nil, {{Blk: 2}, {Blk: -1, Pres: 4, T: 0}}, {{Blk: 4}, {Blk: 0}, {Blk: -1, Pres: 1, T: 1}}}
	var bpops []BPOp
	for b := range blockPool {
		bpops = append(bpops, BPOp{Blk: b})
	}
	for p := range presCids {
		for _, t := range []int32{0, 1, 2} {
			bpops = append(bpops, BPOp{Blk: -1, Pres: p, T: t})
		}
	}
	r.Set("block_presence_options", len(bpops))
	wantCfgs := [][]WantOp{nil, {{C: 0, P: 1}, {C: 2, P: -1, T: 1, Cancel: true, SDH: true}}}

	// wire first: it is cheap and carries the self-certification half
	for _, o := range oddFrames() {
		local := map[string]bool{}
		report(r, wireViolation(checkWire(o.wire, local), o.wire, o.name))
		for k := range local {
			r.Outcome("odd " + o.name + " " + k)
			r.Set("odd_frame_"+o.name, k)
		}
		r.Eval(1)
	}
	bases := wireBases()
	sizes := map[string]int{}
	for _, b := range bases {
		if _, _, err := bsmsg.FromNet(bytes.NewReader(b.wire)); err != nil {
			panic("harness bug: base frame " + b.name + " is rejected: " + err.Error())
		}
		report(r, wireViolation(checkWire(b.wire, nil), b.wire, b.name+" (unmodified)"))
		sizes[b.name] = len(b.wire)
	}
	r.Set("base_frame_sizes", sizes)
	double := map[string]bool{}
	if th {
		double = map[string]bool{"tiny": true, "v0": true}
	}
	mutateBases(r, bases, double)
	streamCheck(r)

	enumWants(r, wopts, 0, fps, bpCfgs, true)
	enumWants(r, wopts, 1, fps, bpCfgs, true)
	enumWants(r, wopts, 2, fps, bpCfgs, true)
	// depth 3: quick restricts the CID dimension to {v0, v1 raw}; thorough keeps all
	w3 := wopts
	if !th {
		w3 = nil
		for _, o := range wopts {
			if o.C == 0 || o.C == 2 {
				w3 = append(w3, o)
			}
		}
	}
	enumWants(r, w3, 3, fps, bpCfgs, false)
	for d := 1; d <= 4; d++ {
		enumBP(r, bpops, d, fps[1:3], wantCfgs)
	}
	// scaled messages
	ns := []int{10, 50}
	if th {
		ns = nil
		for n := 0; n <= 50; n++ {
			ns = append(ns, n)
		}
	}
	bigs := []*MsgCase{}
	for _, n := range ns {
		bigs = append(bigs,
			&MsgCase{Full: true, Pending: 1, Big: &BigSpec{NW: n, NB: 2, NP: 2}},
			&MsgCase{Pending: -1, Big: &BigSpec{NW: 2, NB: n, NP: 2}},
			&MsgCase{Pending: math.MaxInt32, Big: &BigSpec{NW: 2, NB: 2, NP: n}},
			&MsgCase{Full: true, Big: &BigSpec{NW: n, NB: n, NP: n}})
	}
	eng.ParFor(len(bigs), func(i int) {
		report(r, roundTrip(bigs[i]))
		r.Distinct(fmt.Sprintf("big|%+v", *bigs[i].Big))
	})
	r.Eval(len(bigs))
	r.Set("scaled_messages", len(bigs))
	for i, mc := range []*MsgCase{{Full: true, Pending: 7, Wants: []WantOp{{C: 0, P: 1}, {C: 1, P: 2, T: 1, SDH: true}}, BP: []BPOp{{Blk: 3}, {Blk: 4}, {Blk: -1, Pres: 4, T: 1}}}, bigs[len(bigs)-1]} {
		if i < 6 {
			r.Sample(mc)
		}
	}
	if th { // deepest level last: one full/pending/wantlist combination
		enumBP(r, bpops, 5, fps[2:3], wantCfgs[1:])
	}
	r.Set("messages_round_tripped", cnt.msgs.Load())
	r.Set("want_sequences_with_repeated_cid", cnt.withDupAdds.Load())
	r.Set("bp_sequences_with_block_presence_collision", cnt.withCollision.Load())
	r.Set("wire_cases", cnt.wire.Load())
	r.Set("wire_mutants_accepted", wcov.accepted.Load())
	r.Set("wire_mutants_rejected", wcov.rejected.Load())
}

func replay(r *eng.Run, raw json.RawMessage) {
	initPools(true) // the thorough pools extend the quick ones, indices are stable
	var rp Replay
	if err := json.Unmarshal(raw, &rp); err != nil {
		fmt.Println("bad replay:", err)
		return
	}
	r.Eval(1)
	var v *eng.Violation
	switch rp.Kind {
	case "msg":
		b, _ := json.Marshal(rp.Msg)
		fmt.Printf("  message case: %s\n", b)
		v = roundTrip(rp.Msg)
	case "wire":
		w, err := hex.DecodeString(rp.Hex)
		if err != nil {
			fmt.Println("bad replay hex:", err)
			return
		}
		fmt.Printf("  wire (%s): %s\n", rp.Note, rp.Hex)
		out := map[string]bool{}
		v = wireViolation(checkWire(w, out), w, rp.Note)
		for k := range out {
			fmt.Println("  outcome:", k)
		}
	}
	if v != nil {
		r.Report(v)
	} else {
		fmt.Println("  replay: no violation")
	}
}

func main() { eng.Main("C34", "exploration", body, replay) }
