//go:build verif

package message

import (
	pb "github.com/ipfs/boxo/bitswap/message/pb"
	cid "github.com/ipfs/go-cid"
)

// VerifAddEntry exposes the private addEntry so that a harness can build
// messages whose entries carry every field combination (AddEntry cannot set
// cancel, Cancel cannot set priority/type/sendDontHave; parsed messages can).
func VerifAddEntry(m BitSwapMessage, c cid.Cid, priority int32, cancel bool, wantType pb.Message_Wantlist_WantType, sendDontHave bool) int {
	return m.(*impl).addEntry(c, priority, cancel, wantType, sendDontHave)
}
