//go:build verif

package main

import (
	"encoding/json"
	"os"

	"github.com/ipfs/boxo/verifshim/eng"
	"github.com/ipfs/boxo/verifshim/vexp"
)

func spec(r *eng.Run) eng.SeqSpec {
	th := r.Thorough()
	return eng.SeqSpec{
		Configs: seqConfigs(th),
		New:     func(c string) eng.Sys { return newSys(c, th, r) },
		Depth:   eng.Pick(r, 3, 4),
	}
}

func main() {
	eng.WorkerMain = func() { vexp.Register(concScenarios(true)...); eng.WorkerMain() }
	eng.Main("C02", "model_checking", func(r *eng.Run) {
		r.Rule("(1) sequential: BFS over sequences of Put/PutMany/Delete/Has/Get/GetSize/View/Rebuild calls, each optionally with a one-shot base-store fault (call fails before/after its effect, PutMany fails after k blocks, enumeration fails/cancels at position k), successor = replay on a fresh cache stack + 1 call, state = map model + complete hidden cache state (2Q frequent/recent/ghost lists with values, Bloom active flag and bits); non-trivial = path of >= 2 calls. (2) concurrent: every schedule of each scenario (2-3 driver threads x 1-3 calls on colliding keys, racing the initial Bloom build or Rebuild) with at most B deviations; non-trivial = >= 1 deviation; judged by brute-force linearizability of the call/return history against a map")
		r.Assume("the base store is a harness fake (map + fault script) that answers like the default blockstore and enumerates a point-in-time snapshot unless the scenario says live")
		r.Assume("hashicorp/golang-lru 2Q and ipfs/bbloom are not rewritten: their internal locks are never held across a scheduling point")
		r.Assume("overlapping calls may linearize in either order; each block of a PutMany may take effect separately within the call")
		if os.Getenv("VERIF_SKIP_SEQ") == "" { // debugging aid only
			eng.ExploreSeq(r, spec(r))
		}
		if !r.Expired() {
			vexp.Explore(r, concScenarios(r.Thorough()), vexp.Options{Bound: eng.Pick(r, 2, 3)})
		} else {
			r.Incomplete("budget expired before the concurrent part")
		}
	}, func(r *eng.Run, raw json.RawMessage) {
		var probe struct {
			Scenario string `json:"scenario"`
		}
		json.Unmarshal(raw, &probe)
		if probe.Scenario != "" {
			vexp.Replay(r, concScenarios(true), raw)
			return
		}
		eng.ReplaySeq(r, spec(r), raw)
	})
}
