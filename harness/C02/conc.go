//go:build verif

package main

import (
	"context"
	"fmt"
	"sort"
	"strings"

	"github.com/ipfs/boxo/verifshim/eng"
	"github.com/ipfs/boxo/verifshim/vexp"
	"github.com/ipfs/boxo/verifshim/vsched"
)

// cscript is one concurrent scenario: a cache stack, what runs in the
// background, and 2-3 driver threads with 1-3 calls each.
type cscript struct {
	name    string
	quick   bool // part of the quick tier
	cfg     string
	bg      string     // none | build (drivers race the initial build) | rebuild | rebuild!err@k | rebuild!cancel@k | rebuild2 (two Rebuild threads)
	threads [][]string // "Put B", "Has A1", "PutMany A0 B", "Delete B", "GetSize B", "View B", "Get B"
	final   []string   // calls issued after all drivers returned
	delta   int
	allow   map[string]bool
}

type hcall struct {
	thr        int
	op         string
	start, ret int // logical clock; ret = -1 while pending
	res        string
}

type exec struct {
	sc    *cscript
	clock int
	calls []*hcall
	in    *inst
	note  string
}

func (x *exec) tick() int { x.clock++; return x.clock }

func (x *exec) do(thr int, op string) {
	fs := strings.Fields(op)
	var es []entry
	for _, n := range fs[1:] {
		es = append(es, byName[n])
	}
	c := &hcall{thr: thr, op: op, start: x.tick(), ret: -1}
	x.calls = append(x.calls, c)
	res, cidBad := call(x.in.top, fs[0], es, false)
	if cidBad != "" {
		res = "wrong-cid:" + cidBad
	}
	c.res = res
	c.ret = x.tick()
}

func (x *exec) Main() {
	sc := x.sc
	c := parseCfg(sc.cfg)
	x.in = newInst(c, true)
	in := x.in
	if in.ctorErr != nil {
		x.note = "ctor-error"
		return
	}
	bgBuild := strings.HasPrefix(sc.bg, "build")
	rb := sc.bg // the Rebuild part of "build+rebuild…"
	if i := strings.IndexByte(rb, '+'); i >= 0 {
		rb = rb[i+1:]
	}
	if !bgBuild && in.status != nil {
		in.status.Wait(context.Background())
		in.f.cancelFn = nil
	}
	// no separate final thread and no done channels (every blocking point
	// multiplies the schedule space): the driver that finishes last issues the
	// final calls.
	nDrivers := len(sc.threads)
	finished := 0
	spawn := func(name string, body func()) {
		vsched.GoNamed(name, true, func() {
			body()
			finished++
			if finished == nDrivers {
				x.finalCalls()
			}
		})
	}
	if strings.HasPrefix(rb, "rebuild") {
		n := 1
		spec := ""
		if rb == "rebuild2" {
			n = 2
		} else if i := strings.IndexByte(rb, '!'); i >= 0 {
			spec = rb[i+1:]
		}
		if spec != "" {
			in.f.enums = append(in.f.enums, parseEnumFault(spec))
		}
		nDrivers += n
		for i := 0; i < n; i++ {
			thr := 100 + i
			spawn(fmt.Sprintf("rebuild%d", i), func() {
				ctx, cancel := context.WithCancel(context.Background())
				defer cancel()
				if spec != "" {
					in.f.cancelFn = cancel
				}
				hc := &hcall{thr: thr, op: "Rebuild", start: x.tick(), ret: -1}
				x.calls = append(x.calls, hc)
				err := in.status.Rebuild(ctx)
				hc.res = "nil"
				if err != nil {
					hc.res = "error"
				}
				hc.ret = x.tick()
			})
		}
	}
	for t, ops := range sc.threads {
		t, ops := t, ops
		spawn(fmt.Sprintf("drv%d", t), func() {
			for _, op := range ops {
				x.do(t, op)
			}
		})
	}
}

func (x *exec) finalCalls() {
	for _, op := range x.sc.final {
		x.do(200, op)
	}
	if strings.HasPrefix(x.sc.bg, "build") && x.in.status != nil {
		// the same reads again once the initial build is over
		x.in.status.Wait(context.Background())
		for _, op := range x.sc.final {
			x.do(201, op)
		}
	}
}

func (x *exec) AtEnd(*vsched.Result) {}

func (x *exec) Outcome() string {
	cs := append([]*hcall{}, x.calls...)
	sort.SliceStable(cs, func(i, j int) bool { return cs[i].thr < cs[j].thr })
	var sb strings.Builder
	sb.WriteString(x.note)
	for _, c := range cs {
		fmt.Fprintf(&sb, "%d:%s=%s ", c.thr, c.op, c.res)
	}
	return sb.String()
}

// ---- linearizability against the map model (brute force) ----

type lop struct {
	call *hcall
	kind string // Put Delete Has Get GetSize View
	e    entry
}

func (x *exec) history() string {
	var sb strings.Builder
	for _, c := range x.calls {
		fmt.Fprintf(&sb, "  thr%-3d [%2d,%2d] %-14s = %s\n", c.thr, c.start, c.ret, c.op, c.res)
	}
	return sb.String()
}

func (x *exec) Check(res *vsched.Result) *eng.Violation {
	if x.note == "ctor-error" {
		return nil
	}
	cfg := x.in.cfg
	feat := func(extra ...string) []string {
		return append([]string{"layer", cfg.layer, "background", bgKind(x.sc.bg), "errer", fmt.Sprint(cfg.errer), "enumeration", enumKind(cfg)}, extra...)
	}
	var ops []lop
	for _, c := range x.calls {
		if c.ret < 0 {
			return eng.V("call-never-returned", opName(c.op), "a call did not return although every driver finished\n"+x.history(), feat()...)
		}
		fs := strings.Fields(c.op)
		switch fs[0] {
		case "Rebuild":
			continue
		case "Put", "PutMany", "Delete":
			if c.res != "ok" {
				return eng.V("mutator-error", fs[0], fmt.Sprintf("%s returned %q without any base-store failure\n%s", c.op, c.res, x.history()), feat()...)
			}
			k := fs[0]
			if k == "PutMany" {
				k = "Put" // each block of a PutMany may take effect separately within the call
			}
			for _, n := range fs[1:] {
				if byName[n].c.Defined() {
					ops = append(ops, lop{c, k, byName[n]})
				}
			}
		default:
			ops = append(ops, lop{c, fs[0], byName[fs[1]]})
		}
	}
	init := map[string][]byte{}
	for _, n := range cfg.pre {
		init[key(byName[n].c)] = byName[n].data
	}
	if linearizable(ops, init) {
		return nil
	}
	// classify: the property's explicit invariant first
	for _, r := range ops {
		if r.kind == "Put" || r.kind == "Delete" {
			continue
		}
		k := key(r.e.c)
		var puts, dels []*hcall
		if _, ok := init[k]; ok {
			puts = append(puts, &hcall{op: "preload", start: 0, ret: 0})
		}
		for _, o := range ops {
			if key(o.e.c) != k {
				continue
			}
			if o.kind == "Put" {
				puts = append(puts, o.call)
			} else if o.kind == "Delete" {
				dels = append(dels, o.call)
			}
		}
		switch answerClass(r.call.res) {
		case "missing":
			// some put returned before the read started and every delete that began before the read returned was over before that put began
			for _, p := range puts {
				if p.ret >= r.call.start {
					continue
				}
				shadowed := false
				for _, d := range dels {
					if d.start < r.call.ret && !(d.ret < p.start) {
						shadowed = true
					}
				}
				if !shadowed {
					return eng.V("false-negative", r.kind, fmt.Sprintf("%s answered %q although the block was stored (%s) before the call started and no delete of it was issued after that\n%s", r.call.op, r.call.res, p.op, x.history()),
						feat("read_overlaps_rebuild", fmt.Sprint(x.overlapsRebuild(r.call)), "put_overlaps_rebuild", fmt.Sprint(p.op != "preload" && x.overlapsRebuild(p)))...)
				}
			}
		case "present":
			if len(puts) == 0 {
				return eng.V("phantom-block", r.kind, fmt.Sprintf("%s answered %q although the block was never stored\n%s", r.call.op, r.call.res, x.history()), feat()...)
			}
			// some delete returned before the read started and every put was over before that delete began
			for _, d := range dels {
				if d.ret >= r.call.start {
					continue
				}
				revived := false
				for _, p := range puts {
					if p.start < r.call.ret && !(p.ret < d.start) {
						revived = true
					}
				}
				if !revived {
					return eng.V("deleted-block-present", r.kind, fmt.Sprintf("%s answered %q although %s had returned before the call started and no put of the block was issued after that\n%s", r.call.op, r.call.res, d.op, x.history()),
						feat("delete_overlaps_rebuild", fmt.Sprint(x.overlapsRebuild(d)))...)
				}
			}
		default:
			return eng.V("read-error", r.kind, fmt.Sprintf("%s answered %q without any base-store failure\n%s", r.call.op, r.call.res, x.history()), feat()...)
		}
	}
	return eng.V("not-linearizable", "", "no sequential order of the calls consistent with their real-time order explains the answers against a map\n"+x.history(), feat()...)
}

func opName(op string) string { return strings.Fields(op)[0] }

func bgKind(bg string) string {
	if i := strings.IndexByte(bg, '@'); i >= 0 {
		return bg[:i+1]
	}
	return bg
}

func enumKind(c cfgT) string {
	if c.live {
		return "live"
	}
	return "snapshot"
}

func (x *exec) overlapsRebuild(c *hcall) bool {
	for _, r := range x.calls {
		if r.op == "Rebuild" && r.start < c.ret && (r.ret < 0 || r.ret > c.start) {
			return true
		}
	}
	return false
}

func linearizable(ops []lop, init map[string][]byte) bool {
	n := len(ops)
	done := make([]bool, n)
	state := copyMap(init)
	var rec func(left int) bool
	rec = func(left int) bool {
		if left == 0 {
			return true
		}
		for i := 0; i < n; i++ {
			if done[i] {
				continue
			}
			// every op that returned before ops[i] started must already be placed
			ok := true
			for j := 0; j < n; j++ {
				if !done[j] && j != i && ops[j].call.ret < ops[i].call.start {
					ok = false
					break
				}
			}
			if !ok {
				continue
			}
			o := ops[i]
			k := key(o.e.c)
			switch o.kind {
			case "Put":
				old, had := state[k]
				state[k] = o.e.data
				done[i] = true
				if rec(left - 1) {
					return true
				}
				done[i] = false
				if had {
					state[k] = old
				} else {
					delete(state, k)
				}
			case "Delete":
				old, had := state[k]
				delete(state, k)
				done[i] = true
				if rec(left - 1) {
					return true
				}
				done[i] = false
				if had {
					state[k] = old
				}
			default:
				if want(state, o.kind, o.e) != o.call.res {
					continue
				}
				done[i] = true
				if rec(left - 1) {
					return true
				}
				done[i] = false
			}
		}
		return false
	}
	return rec(n)
}

func concScripts(thorough bool) []*cscript {
	s := []*cscript{
		// two-queue cache: same key from two threads (alias CIDs share the cache key and the per-key lock)
		{name: "tq-put-del", quick: true, cfg: "layer=tq,tq=2", bg: "none", threads: [][]string{{"Put B", "Has B"}, {"Delete B", "Has B"}}, final: []string{"Has B", "Get B"}, delta: 20},
		{name: "tq-alias", quick: true, cfg: "layer=tq,tq=2,pre=A0", bg: "none", threads: [][]string{{"Delete A1", "Put A0"}, {"Has A1", "GetSize A0"}}, final: []string{"Has A0", "GetSize A1"}, delta: 2},
		{name: "tq-putmany-order", quick: true, cfg: "layer=tq,tq=4", bg: "none", threads: [][]string{{"PutMany A0 B"}, {"PutMany B A1"}, {"Delete B"}}, final: []string{"Has B", "Has A0"}},
		{name: "tq-evict", quick: true, cfg: "layer=tq,tq=2,pre=B", bg: "none", threads: [][]string{{"Has A0", "Has C", "Has B"}, {"Delete B", "Put B"}}, final: []string{"Has B", "GetSize B"}, delta: 1},
		{name: "tq-view-noviewer", cfg: "layer=tq,tq=2,view=0,pre=B", bg: "none", threads: [][]string{{"View B", "Delete B"}, {"View B", "Put B"}}, final: []string{"View B"}, delta: 3},
		// Bloom cache: calls racing the initial build
		{name: "bloom-build", quick: true, cfg: "layer=bloom,pre=B", bg: "build", threads: [][]string{{"Has B", "Put C"}, {"Get C", "Has C"}}, final: []string{"Has B", "Has C"}},
		{name: "bloom-build-err", quick: true, cfg: "layer=bloom,pre=A0+B,build=err@1", bg: "build", threads: [][]string{{"Has B", "Put C"}, {"Has A1"}}, final: []string{"Has B", "Has C", "Has A0"}},
		{name: "bloom-build-cancel", cfg: "layer=bloom,pre=A0+B,build=cancel@1", bg: "build", threads: [][]string{{"Has B"}, {"Has A1"}}, final: []string{"Has B", "Has A0"}},
		// Bloom cache: calls racing Rebuild
		{name: "bloom-rebuild-read", quick: true, cfg: "layer=bloom,pre=B", bg: "rebuild", threads: [][]string{{"Has B", "Get B"}}, final: []string{"Has B"}, delta: 2},
		{name: "bloom-rebuild-put", quick: true, cfg: "layer=bloom,pre=B", bg: "rebuild", threads: [][]string{{"Put A0", "Has A1"}}, final: []string{"Has A0", "Has B"}, delta: 2},
		// every kind of writer (Put above, PutMany, Delete below) races a full Rebuild; the backing write is a scheduling point
		{name: "bloom-rebuild-putmany", quick: true, cfg: "layer=bloom,pre=B", bg: "rebuild", threads: [][]string{{"PutMany A0 C", "Has C"}}, final: []string{"Has A1", "Has C", "Has B"}, delta: 1},
		{name: "bloom-rebuild-err", quick: true, cfg: "layer=bloom,pre=A0+B", bg: "rebuild!err@1", threads: [][]string{{"Put C", "Has C"}}, final: []string{"Has A0", "Has B", "Has C"}, delta: 2},
		{name: "bloom-rebuild-cancel", cfg: "layer=bloom,pre=A0+B", bg: "rebuild!cancel@1", threads: [][]string{{"Put C"}}, final: []string{"Has A0", "Has B", "Has C"}, delta: 2},
		{name: "bloom-rebuild2", cfg: "layer=bloom,pre=B", bg: "rebuild2", threads: [][]string{{"Put A0"}}, final: []string{"Has A0", "Has B"}},
		// both layers through the public constructor
		{name: "both-rebuild", quick: true, cfg: "layer=both,tq=2,pre=B", bg: "rebuild", threads: [][]string{{"Delete B", "Put B"}, {"Has B"}}, final: []string{"Has B", "GetSize B"}},
		{name: "both-build", cfg: "layer=both,tq=2,pre=B", bg: "build", threads: [][]string{{"Put A0", "Has A1"}, {"Delete A1"}}, final: []string{"Has A0", "Has B"}},
		// base store whose enumeration is a lazy walk (not a snapshot)
		{name: "bloom-rebuild-live", cfg: "layer=bloom,pre=B,live=1", bg: "rebuild", threads: [][]string{{"Put A0", "Put C"}}, final: []string{"Has A0", "Has B", "Has C"}},
		// base store that cannot report a truncated enumeration
		{name: "bloom-rebuild-noerrer", quick: true, cfg: "layer=bloom,errer=0,pre=A0+B", bg: "rebuild!cancel@1", threads: [][]string{{"Has B"}}, final: []string{"Has A0", "Has B"}, delta: 2},
		// thorough-only extras
		{name: "tq-3thr-samekey", cfg: "layer=tq,tq=2", bg: "none", threads: [][]string{{"Put B"}, {"Delete B"}, {"Has B", "GetSize B"}}, final: []string{"Has B", "Get B"}, delta: 1},
		{name: "tq-reads-vs-writes", cfg: "layer=tq,tq=3,pre=B", bg: "none", threads: [][]string{{"Get B", "GetSize B", "View B"}, {"Delete B", "Put B"}}, final: []string{"GetSize B", "View B"}, delta: 2},
		{name: "tq-putmany-vs-delete", cfg: "layer=tq,tq=4,pre=C", bg: "none", threads: [][]string{{"PutMany C B", "Has C"}, {"Delete C", "Delete B"}}, final: []string{"Has B", "Has C"}, delta: 2},
		{name: "bloom-build-delete", cfg: "layer=bloom,pre=A0+B", bg: "build", threads: [][]string{{"Delete B", "Has B"}, {"Put B"}}, final: []string{"Has B", "Has A1"}},
		{name: "bloom-rebuild-delete", quick: true, cfg: "layer=bloom,pre=A0+B", bg: "rebuild", threads: [][]string{{"Delete B", "Put C"}}, final: []string{"Has B", "Has C", "Has A0"}, delta: 2},
		{name: "bloom-rebuild-3thr", cfg: "layer=bloom,pre=B", bg: "rebuild", threads: [][]string{{"Put C"}, {"Has C", "Has B"}}, final: []string{"Has C", "Has B"}},
		{name: "bloom-build+rebuild", cfg: "layer=bloom,pre=B", bg: "build+rebuild", threads: [][]string{{"Put A0", "Has A1"}}, final: []string{"Has A0", "Has B"}},
		{name: "bloom-builderr+rebuild", cfg: "layer=bloom,pre=A0+B,build=err@1", bg: "build+rebuild", threads: [][]string{{"Put C", "Has B"}}, final: []string{"Has A0", "Has B", "Has C"}},
		{name: "bloom3-rebuild", cfg: "layer=bloom,bh=3,view=0,pre=B", bg: "rebuild", threads: [][]string{{"Put A0", "View A1"}}, final: []string{"View A0", "View B"}, delta: 2},
		{name: "bloom-build-putmany", cfg: "layer=bloom,pre=B", bg: "build", threads: [][]string{{"PutMany A0 C"}, {"Has C"}}, final: []string{"Has A1", "Has C", "Has B"}},
		{name: "bloom-rebuild-putmany-2thr", cfg: "layer=bloom,bh=3,pre=B", bg: "rebuild", threads: [][]string{{"PutMany C A0"}, {"Get C", "Has A1"}}, final: []string{"Has A0", "Has C"}},
		{name: "both-rebuild-putmany", cfg: "layer=both,tq=2,pre=B", bg: "rebuild", threads: [][]string{{"PutMany A0 C", "Has C"}}, final: []string{"Has A1", "Has B", "Has C"}, delta: 1},
		{name: "both-rebuild-err", cfg: "layer=both,tq=64,pre=A0+B", bg: "rebuild!err@1", threads: [][]string{{"Delete A0", "Put A1"}, {"GetSize A0"}}, final: []string{"Has A0", "GetSize A1"}},
		// constructor: HasTwoQueueCacheSize=1 makes lru.New2Q fail (ghost list of size 0); with a Bloom filter
		// configured the error is overwritten and a store wrapping a nil *tqcache is returned
		{name: "ctor-tq1-bloom", quick: true, cfg: "layer=both,tq=1,pre=B", bg: "none", threads: [][]string{{"Has B"}}},
	}
	if !thorough {
		var q []*cscript
		for _, c := range s {
			if c.quick {
				q = append(q, c)
			}
		}
		return q
	}
	return s
}

func concScenarios(thorough bool) []*vexp.Scenario {
	var out []*vexp.Scenario
	for _, s := range concScripts(thorough) {
		s := s
		out = append(out, &vexp.Scenario{
			Name: s.name, BoundDelta: s.delta, Allow: s.allow,
			Cfg: vsched.Config{MaxSteps: 20000, MaxIdleFires: 4, SelectCost: 1},
			New: func() vexp.Exec { return &exec{sc: s} },
		})
	}
	return out
}
