//go:build verif

package main

import (
	"context"
	"fmt"
	"sort"
	"strings"

	"github.com/ipfs/boxo/verifshim/eng"
	"github.com/ipfs/boxo/verifshim/vexp"
	"github.com/ipfs/boxo/verifshim/vsched"
)

// cscript is one concurrent scenario: a cache stack, what runs in the
// background, and 2-3 driver threads with 1-3 calls each.
type cscript struct {
	name    string
	quick   bool // part of the quick tier
	cfg     string
	bg      string     // none | build (drivers race the initial build) | rebuild | rebuild!err@k | rebuild!cancel@k | rebuild2 (two Rebuild threads)
	threads [][]string // "Put B", "Has A1", "PutMany A0 B", "Delete B", "GetSize B", "View B", "Get B"
	final   []string   // calls issued after all drivers returned
	delta   int
	allow   map[string]bool
}

type hcall struct {
	thr        int
	op         string
	start, ret int // logical clock; ret = -1 while pending
	res        string
}

type exec struct {
	sc    *cscript
	clock int
	calls []*hcall
	in    *inst
	note  string
}

func (x *exec) tick() int { x.clock++; return x.clock }

func (x *exec) do(thr int, op string) {
	fs := strings.Fields(op)
	var es []entry
	for _, n := range fs[1:] {
		es = append(es, byName[n])
	}
	c := &hcall{thr: thr, op: op, start: x.tick(), ret: -1}
	x.calls = append(x.calls, c)
	res, cidBad := call(x.in.top, fs[0], es, false)
	if cidBad != "" {
		res = "wrong-cid:" + cidBad
	}
	c.res = res
	c.ret = x.tick()
}

func (x *exec) Main() {
	sc := x.sc
	c := parseCfg(sc.cfg)
	x.in = newInst(c, true)
	in := x.in
	if in.ctorErr != nil {
		x.note = "ctor-error"
		return
	}
	if sc.bg != "build" && in.status != nil {
		in.status.Wait(context.Background())
		in.f.cancelFn = nil
	}
	// no separate final thread and no done channels (every blocking point
	// multiplies the schedule space): the driver that finishes last issues the
	// final calls.
	nDrivers := len(sc.threads)
	finished := 0
	spawn := func(name string, body func()) {
		vsched.GoNamed(name, true, func() {
			body()
			finished++
			if finished == nDrivers {
				x.finalCalls()
			}
		})
	}
	if strings.HasPrefix(sc.bg, "rebuild") {
		n := 1
		spec := ""
		if sc.bg == "rebuild2" {
			n = 2
		} else if i := strings.IndexByte(sc.bg, '!'); i >= 0 {
			spec = sc.bg[i+1:]
		}
		if spec != "" {
			in.f.enums = []enumFault{parseEnumFault(spec)}
		}
		nDrivers += n
		for i := 0; i < n; i++ {
			thr := 100 + i
			spawn(fmt.Sprintf("rebuild%d", i), func() {
				ctx, cancel := context.WithCancel(context.Background())
				defer cancel()
				if spec != "" {
					in.f.cancelFn = cancel
				}
				hc := &hcall{thr: thr, op: "Rebuild", start: x.tick(), ret: -1}
				x.calls = append(x.calls, hc)
				err := in.status.Rebuild(ctx)
				hc.res = "nil"
				if err != nil {
					hc.res = "error"
				}
				hc.ret = x.tick()
			})
		}
	}
	for t, ops := range sc.threads {
		t, ops := t, ops
		spawn(fmt.Sprintf("drv%d", t), func() {
			for _, op := range ops {
				x.do(t, op)
			}
		})
	}
}

func (x *exec) finalCalls() {
	for _, op := range x.sc.final {
		x.do(200, op)
	}
	if x.sc.bg == "build" && x.in.status != nil {
		// the same reads again once the initial build is over
		x.in.status.Wait(context.Background())
		for _, op := range x.sc.final {
			x.do(201, op)
		}
	}
}

func (x *exec) AtEnd(*vsched.Result) {}

func (x *exec) Outcome() string {
	cs := append([]*hcall{}, x.calls...)
	sort.SliceStable(cs, func(i, j int) bool { return cs[i].thr < cs[j].thr })
	var sb strings.Builder
	sb.WriteString(x.note)
	for _, c := range cs {
		fmt.Fprintf(&sb, "%d:%s=%s ", c.thr, c.op, c.res)
	}
	return sb.String()
}

// ---- linearizability against the map model (brute force) ----

type lop struct {
	call *hcall
	kind string // Put Delete Has Get GetSize View
	e    entry
}

func (x *exec) history() string {
	var sb strings.Builder
	for _, c := range x.calls {
		fmt.Fprintf(&sb, "  thr%-3d [%2d,%2d] %-14s = %s\n", c.thr, c.start, c.ret, c.op, c.res)
	}
	return sb.String()
}

func (x *exec) Check(res *vsched.Result) *eng.Violation {
	if x.note == "ctor-error" {
		return nil
	}
	cfg := x.in.cfg
	feat := func(extra ...string) []string {
		return append([]string{"layer", cfg.layer, "background", bgKind(x.sc.bg), "errer", fmt.Sprint(cfg.errer), "enumeration", enumKind(cfg)}, extra...)
	}
	var ops []lop
	for _, c := range x.calls {
		if c.ret < 0 {
			return eng.V("call-never-returned", opName(c.op), "a call did not return although every driver finished\n"+x.history(), feat()...)
		}
		fs := strings.Fields(c.op)
		switch fs[0] {
		case "Rebuild":
			continue
		case "Put", "PutMany", "Delete":
			if c.res != "ok" {
				return eng.V("mutator-error", fs[0], fmt.Sprintf("%s returned %q without any base-store failure\n%s", c.op, c.res, x.history()), feat()...)
			}
			k := fs[0]
			if k == "PutMany" {
				k = "Put" // each block of a PutMany may take effect separately within the call
			}
			for _, n := range fs[1:] {
				if byName[n].c.Defined() {
					ops = append(ops, lop{c, k, byName[n]})
				}
			}
		default:
			ops = append(ops, lop{c, fs[0], byName[fs[1]]})
		}
	}
	init := map[string][]byte{}
	for _, n := range cfg.pre {
		init[key(byName[n].c)] = byName[n].data
	}
	if linearizable(ops, init) {
		return nil
	}
	// classify: the property's explicit invariant first
	for _, r := range ops {
		if r.kind == "Put" || r.kind == "Delete" {
			continue
		}
		k := key(r.e.c)
		if answerClass(r.call.res) == "missing" {
			stored := false
			if _, ok := init[k]; ok {
				stored = true
			}
			putDuringRebuild := false
			for _, p := range ops {
				if p.kind == "Put" && key(p.e.c) == k && p.call.ret < r.call.start {
					stored = true
					if x.overlapsRebuild(p.call) {
						putDuringRebuild = true
					}
				}
			}
			deleted := false
			for _, d := range ops {
				if d.kind == "Delete" && key(d.e.c) == k && d.call.start < r.call.ret {
					deleted = true
				}
			}
			if stored && !deleted {
				return eng.V("false-negative", r.kind, fmt.Sprintf("%s answered %q although the block was stored before the call started and no delete of it was ever issued\n%s", r.call.op, r.call.res, x.history()),
					feat("read_overlaps_rebuild", fmt.Sprint(x.overlapsRebuild(r.call)), "put_overlaps_rebuild", fmt.Sprint(putDuringRebuild))...)
			}
		}
		if answerClass(r.call.res) == "present" {
			possible := false
			if _, ok := init[k]; ok {
				possible = true
			}
			for _, p := range ops {
				if p.kind == "Put" && key(p.e.c) == k && p.call.start < r.call.ret {
					possible = true
				}
			}
			if !possible {
				return eng.V("phantom-block", r.kind, fmt.Sprintf("%s answered %q although the block was never stored\n%s", r.call.op, r.call.res, x.history()), feat()...)
			}
		}
		if answerClass(r.call.res) == "other" {
			return eng.V("read-error", r.kind, fmt.Sprintf("%s answered %q without any base-store failure\n%s", r.call.op, r.call.res, x.history()), feat()...)
		}
	}
	return eng.V("not-linearizable", "", "no sequential order of the calls consistent with their real-time order explains the answers against a map\n"+x.history(), feat()...)
}

func opName(op string) string { return strings.Fields(op)[0] }

func bgKind(bg string) string {
	if i := strings.IndexByte(bg, '@'); i >= 0 {
		return bg[:i+1]
	}
	return bg
}

func enumKind(c cfgT) string {
	if c.live {
		return "live"
	}
	return "snapshot"
}

func (x *exec) overlapsRebuild(c *hcall) bool {
	for _, r := range x.calls {
		if r.op == "Rebuild" && r.start < c.ret && (r.ret < 0 || r.ret > c.start) {
			return true
		}
	}
	return false
}

func linearizable(ops []lop, init map[string][]byte) bool {
	n := len(ops)
	done := make([]bool, n)
	state := copyMap(init)
	var rec func(left int) bool
	rec = func(left int) bool {
		if left == 0 {
			return true
		}
		for i := 0; i < n; i++ {
			if done[i] {
				continue
			}
			// every op that returned before ops[i] started must already be placed
			ok := true
			for j := 0; j < n; j++ {
				if !done[j] && j != i && ops[j].call.ret < ops[i].call.start {
					ok = false
					break
				}
			}
			if !ok {
				continue
			}
			o := ops[i]
			k := key(o.e.c)
			switch o.kind {
			case "Put":
				old, had := state[k]
				state[k] = o.e.data
				done[i] = true
				if rec(left - 1) {
					return true
				}
				done[i] = false
				if had {
					state[k] = old
				} else {
					delete(state, k)
				}
			case "Delete":
				old, had := state[k]
				delete(state, k)
				done[i] = true
				if rec(left - 1) {
					return true
				}
				done[i] = false
				if had {
					state[k] = old
				}
			default:
				if want(state, o.kind, o.e) != o.call.res {
					continue
				}
				done[i] = true
				if rec(left - 1) {
					return true
				}
				done[i] = false
			}
		}
		return false
	}
	return rec(n)
}

func concScripts(thorough bool) []*cscript {
	s := []*cscript{
		// two-queue cache: same key from two threads (alias CIDs share the cache key and the per-key lock)
		{name: "tq-put-del", quick: true, cfg: "layer=tq,tq=2", bg: "none", threads: [][]string{{"Put B", "Has B"}, {"Delete B", "Has B"}}, final: []string{"Has B", "Get B"}},
		{name: "tq-alias", quick: true, cfg: "layer=tq,tq=2,pre=A0", bg: "none", threads: [][]string{{"Delete A1", "Put A0"}, {"Has A1", "GetSize A0"}}, final: []string{"Has A0", "GetSize A1"}},
		{name: "tq-putmany-order", quick: true, cfg: "layer=tq,tq=4", bg: "none", threads: [][]string{{"PutMany A0 B"}, {"PutMany B A1"}, {"Delete B"}}, final: []string{"Has B", "Has A0"}, delta: -1},
		{name: "tq-evict", quick: true, cfg: "layer=tq,tq=2,pre=B", bg: "none", threads: [][]string{{"Has A0", "Has C", "Has B"}, {"Delete B", "Put B"}}, final: []string{"Has B", "GetSize B"}},
		{name: "tq-view-noviewer", cfg: "layer=tq,tq=2,view=0,pre=B", bg: "none", threads: [][]string{{"View B", "Delete B"}, {"View B", "Put B"}}, final: []string{"View B"}},
		// Bloom cache: calls racing the initial build
		{name: "bloom-build", quick: true, cfg: "layer=bloom,pre=B", bg: "build", threads: [][]string{{"Has B", "Put C"}, {"Get C", "Has C"}}, final: []string{"Has B", "Has C"}},
		{name: "bloom-build-err", quick: true, cfg: "layer=bloom,pre=A0+B,build=err@1", bg: "build", threads: [][]string{{"Has B", "Put C"}, {"Has A1"}}, final: []string{"Has B", "Has C", "Has A0"}},
		{name: "bloom-build-cancel", cfg: "layer=bloom,pre=A0+B,build=cancel@1", bg: "build", threads: [][]string{{"Has B"}, {"Has A1"}}, final: []string{"Has B", "Has A0"}},
		// Bloom cache: calls racing Rebuild
		{name: "bloom-rebuild-read", quick: true, cfg: "layer=bloom,pre=B", bg: "rebuild", threads: [][]string{{"Has B", "Get B"}}, final: []string{"Has B"}},
		{name: "bloom-rebuild-put", quick: true, cfg: "layer=bloom,pre=B", bg: "rebuild", threads: [][]string{{"Put A0", "Has A1"}}, final: []string{"Has A0", "Has B"}},
		{name: "bloom-rebuild-err", quick: true, cfg: "layer=bloom,pre=A0+B", bg: "rebuild!err@1", threads: [][]string{{"Put C", "Has C"}}, final: []string{"Has A0", "Has B", "Has C"}},
		{name: "bloom-rebuild-cancel", cfg: "layer=bloom,pre=A0+B", bg: "rebuild!cancel@1", threads: [][]string{{"Put C"}}, final: []string{"Has A0", "Has B", "Has C"}},
		{name: "bloom-rebuild2", cfg: "layer=bloom,pre=B", bg: "rebuild2", threads: [][]string{{"Put A0"}}, final: []string{"Has A0", "Has B"}, delta: -1},
		// both layers through the public constructor
		{name: "both-rebuild", quick: true, cfg: "layer=both,tq=2,pre=B", bg: "rebuild", threads: [][]string{{"Delete B", "Put B"}, {"Has B"}}, final: []string{"Has B", "GetSize B"}, delta: -1},
		{name: "both-build", cfg: "layer=both,tq=2,pre=B", bg: "build", threads: [][]string{{"Put A0", "Has A1"}, {"Delete A1"}}, final: []string{"Has A0", "Has B"}},
		// base store whose enumeration is a lazy walk (not a snapshot)
		{name: "bloom-rebuild-live", cfg: "layer=bloom,pre=B,live=1", bg: "rebuild", threads: [][]string{{"Put A0", "Put C"}}, final: []string{"Has A0", "Has B", "Has C"}},
		// base store that cannot report a truncated enumeration
		{name: "bloom-rebuild-noerrer", quick: true, cfg: "layer=bloom,errer=0,pre=A0+B", bg: "rebuild!cancel@1", threads: [][]string{{"Has B"}}, final: []string{"Has A0", "Has B"}},
		// constructor: HasTwoQueueCacheSize=1 makes lru.New2Q fail (ghost list of size 0); with a Bloom filter
		// configured the error is overwritten and a store wrapping a nil *tqcache is returned
		{name: "ctor-tq1-bloom", quick: true, cfg: "layer=both,tq=1,pre=B", bg: "none", threads: [][]string{{"Has B"}}},
	}
	if !thorough {
		var q []*cscript
		for _, c := range s {
			if c.quick {
				q = append(q, c)
			}
		}
		return q
	}
	return s
}

func concScenarios(thorough bool) []*vexp.Scenario {
	var out []*vexp.Scenario
	for _, s := range concScripts(thorough) {
		s := s
		out = append(out, &vexp.Scenario{
			Name: s.name, BoundDelta: s.delta, Allow: s.allow,
			Cfg: vsched.Config{MaxSteps: 20000, MaxIdleFires: 4, SelectCost: 1},
			New: func() vexp.Exec { return &exec{sc: s} },
		})
	}
	return out
}
