//go:build verif

package main

import (
	"context"
	"errors"
	"sort"

	bstore "github.com/ipfs/boxo/blockstore"
	"github.com/ipfs/boxo/verifshim/vsched"
	blocks "github.com/ipfs/go-block-format"
	cid "github.com/ipfs/go-cid"
	ipld "github.com/ipfs/go-ipld-format"
	mh "github.com/multiformats/go-multihash"
)

var errInjected = errors.New("injected base-store failure")
var errEnum = errors.New("injected enumeration failure")

// fault is a one-shot failure of the next matching base-store call.
type fault struct {
	class string // put | del | has | get | size
	post  bool   // mutators: the effect happens, then the error is returned
	pos   int    // PutMany: number of blocks written before the error
	fired bool
}

// enumFault describes how one key enumeration ends.
type enumFault struct {
	kind string // "" complete | err | cancel | setup
	pos  int    // number of keys delivered before the failure
}

// fakeCore is the uncached base store: a multihash -> bytes map with a fault
// script. It answers like the default boxo blockstore (cid.Undef: Has=false,
// Get/GetSize/View=not found, Delete=nil). It takes no lock: under vsched one
// thread runs at a time and every entry is a scheduling point; in sequential
// mode only one goroutine touches the map at a time (the Bloom build goroutine
// only enumerates, and the harness waits for it).
type fakeCore struct {
	m             map[string][]byte
	flt           *fault
	enums         []enumFault // consumed one per enumeration; empty = complete
	cancelFn      func()      // cancels the context of the running build (enumFault cancel)
	live          bool        // enumeration reads the live map instead of a snapshot
	closeOnCancel bool        // cancel fault: close the channel after cancelling (concurrent mode)
	unbuffered    bool        // sequential mode: rendezvous channel, so that what the consumer saw is deterministic
	calls         map[string]int
	nEnum         int
}

func newFake() *fakeCore { return &fakeCore{m: map[string][]byte{}, calls: map[string]int{}} }

// enter/leave: a store call takes time; both its start and its return are
// scheduling points (the access itself happens atomically in between).
func (f *fakeCore) enter(name string) {
	vsched.Yield("base." + name)
	f.calls[name]++
}

func (f *fakeCore) leave(name string) { vsched.Yield("base." + name + ".ret") }

func (f *fakeCore) fire(class string) *fault {
	if f.flt != nil && !f.flt.fired && f.flt.class == class {
		f.flt.fired = true
		return f.flt
	}
	return nil
}

func key(c cid.Cid) string { return string(c.Hash()) }

func (f *fakeCore) DeleteBlock(ctx context.Context, c cid.Cid) error {
	f.enter("Delete")
	defer f.leave("Delete")
	if ft := f.fire("del"); ft != nil {
		if ft.post && c.Defined() {
			delete(f.m, key(c))
		}
		return errInjected
	}
	if c.Defined() {
		delete(f.m, key(c))
	}
	return nil
}

func (f *fakeCore) Has(ctx context.Context, c cid.Cid) (bool, error) {
	f.enter("Has")
	defer f.leave("Has")
	if f.fire("has") != nil {
		return false, errInjected
	}
	if !c.Defined() {
		return false, nil
	}
	_, ok := f.m[key(c)]
	return ok, nil
}

func (f *fakeCore) Get(ctx context.Context, c cid.Cid) (blocks.Block, error) {
	f.enter("Get")
	defer f.leave("Get")
	if f.fire("get") != nil {
		return nil, errInjected
	}
	if !c.Defined() {
		return nil, ipld.ErrNotFound{Cid: c}
	}
	d, ok := f.m[key(c)]
	if !ok {
		return nil, ipld.ErrNotFound{Cid: c}
	}
	return blocks.NewBlockWithCid(append([]byte{}, d...), c)
}

func (f *fakeCore) GetSize(ctx context.Context, c cid.Cid) (int, error) {
	f.enter("GetSize")
	defer f.leave("GetSize")
	if f.fire("size") != nil {
		return -1, errInjected
	}
	if !c.Defined() {
		return -1, ipld.ErrNotFound{Cid: c}
	}
	d, ok := f.m[key(c)]
	if !ok {
		return -1, ipld.ErrNotFound{Cid: c}
	}
	return len(d), nil
}

func (f *fakeCore) view(ctx context.Context, c cid.Cid, cb func([]byte) error) error {
	f.enter("View")
	defer f.leave("View")
	if f.fire("get") != nil {
		return errInjected
	}
	if !c.Defined() {
		return ipld.ErrNotFound{Cid: c}
	}
	d, ok := f.m[key(c)]
	if !ok {
		return ipld.ErrNotFound{Cid: c}
	}
	return cb(append([]byte{}, d...))
}

func (f *fakeCore) Put(ctx context.Context, b blocks.Block) error {
	f.enter("Put")
	defer f.leave("Put")
	if ft := f.fire("put"); ft != nil {
		if ft.post {
			f.m[key(b.Cid())] = b.RawData()
		}
		return errInjected
	}
	f.m[key(b.Cid())] = b.RawData()
	return nil
}

func (f *fakeCore) PutMany(ctx context.Context, bs []blocks.Block) error {
	f.enter("PutMany")
	defer f.leave("PutMany")
	if ft := f.fire("put"); ft != nil {
		for i, b := range bs {
			if i >= ft.pos {
				break
			}
			f.m[key(b.Cid())] = b.RawData()
		}
		return errInjected
	}
	for _, b := range bs {
		f.m[key(b.Cid())] = b.RawData()
	}
	return nil
}

func (f *fakeCore) sortedKeys() []string {
	ks := make([]string, 0, len(f.m))
	for k := range f.m {
		ks = append(ks, k)
	}
	sort.Strings(ks)
	return ks
}

func (f *fakeCore) allKeys(ctx context.Context) (<-chan cid.Cid, func() error, error) {
	f.enter("AllKeysChan")
	var ef enumFault
	if len(f.enums) > 0 {
		ef, f.enums = f.enums[0], f.enums[1:]
	}
	f.nEnum++
	if ef.kind == "setup" {
		return nil, nil, errEnum
	}
	keys := f.sortedKeys() // point-in-time snapshot, as MapDatastore / LevelDB / Badger queries give
	if !f.unbuffered && !f.live {
		// concurrent mode, snapshot enumeration: no producer thread (keeps the
		// schedule space small); the buffered channel is filled here, every send
		// still being a scheduling point, and the failure is applied at once.
		n := len(keys)
		if ef.kind == "err" || ef.kind == "cancel" {
			if ef.pos < n {
				n = ef.pos
			}
		}
		out := vsched.Reg(make(chan cid.Cid, len(keys)+1))
		for _, k := range keys[:n] {
			vsched.SendTo((chan<- cid.Cid)(out))(cid.NewCidV1(cid.Raw, mh.Multihash(k)))
		}
		var iterErr error
		switch ef.kind {
		case "err":
			iterErr = errEnum
			vsched.Close(out)
		case "cancel":
			if f.cancelFn != nil {
				f.cancelFn()
			}
			iterErr = context.Canceled
			if f.closeOnCancel {
				vsched.Close(out)
			}
		default:
			vsched.Close(out)
		}
		return out, func() error { return iterErr }, nil
	}
	nbuf := len(keys) + 4
	if f.unbuffered {
		nbuf = 0
	}
	out := vsched.Reg(make(chan cid.Cid, nbuf))
	done := vsched.Reg(make(chan struct{}))
	var iterErr error
	live := f.live
	vsched.GoNamed("base.enum", false, func() {
		defer vsched.Close(done)
		i := 0
		last := ""
		for {
			if ef.kind != "" && i == ef.pos {
				switch ef.kind {
				case "err":
					iterErr = errEnum
					vsched.Close(out)
				case "cancel":
					if f.cancelFn != nil {
						f.cancelFn()
					}
					iterErr = context.Canceled
					if f.closeOnCancel {
						vsched.Close(out)
					}
				}
				return
			}
			var k string
			if live {
				// lazy walk: the next key in order that is in the map NOW
				vsched.Yield("base.enum.next")
				found := false
				for _, c := range f.sortedKeys() {
					if c > last {
						k, found = c, true
						break
					}
				}
				if !found {
					vsched.Close(out)
					return
				}
			} else {
				if i >= len(keys) {
					vsched.Close(out)
					return
				}
				k = keys[i]
			}
			last = k
			c := cid.NewCidV1(cid.Raw, mh.Multihash(k))
			if vsched.Select(false, vsched.SndTo((chan<- cid.Cid)(out))(c), vsched.R(ctx.Done())) == 1 {
				iterErr = ctx.Err()
				vsched.Close(out)
				return
			}
			i++
		}
	})
	return out, func() error { vsched.Recv((<-chan struct{})(done)); return iterErr }, nil
}

func (f *fakeCore) AllKeysChan(ctx context.Context) (<-chan cid.Cid, error) {
	ch, _, err := f.allKeys(ctx)
	return ch, err
}

// the four interface shapes a base store can have
type fakePlain struct{ *fakeCore }
type fakeV struct{ *fakeCore }
type fakeE struct{ *fakeCore }
type fakeVE struct{ *fakeCore }

func (f fakeV) View(ctx context.Context, c cid.Cid, cb func([]byte) error) error {
	return f.view(ctx, c, cb)
}
func (f fakeVE) View(ctx context.Context, c cid.Cid, cb func([]byte) error) error {
	return f.view(ctx, c, cb)
}
func (f fakeE) AllKeysChanWithErr(ctx context.Context) (<-chan cid.Cid, func() error, error) {
	return f.allKeys(ctx)
}
func (f fakeVE) AllKeysChanWithErr(ctx context.Context) (<-chan cid.Cid, func() error, error) {
	return f.allKeys(ctx)
}

func (f *fakeCore) shape(viewer, errer bool) bstore.Blockstore {
	switch {
	case viewer && errer:
		return fakeVE{f}
	case viewer:
		return fakeV{f}
	case errer:
		return fakeE{f}
	}
	return fakePlain{f}
}
