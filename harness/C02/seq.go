//go:build verif

package main

import (
	"context"
	"errors"
	"fmt"
	"sort"
	"strconv"
	"strings"

	bstore "github.com/ipfs/boxo/blockstore"
	"github.com/ipfs/boxo/verifshim/eng"
	blocks "github.com/ipfs/go-block-format"
	cid "github.com/ipfs/go-cid"
	ipld "github.com/ipfs/go-ipld-format"
)

// ---- configuration shared by the sequential and the concurrent part ----

type cfgT struct {
	raw   string
	layer string // tq | bloom | both (both = public CachedBlockstore)
	tq    int
	bh    int // bloom hash locations
	view  bool
	errer bool // base implements AllKeysChanWithErrer
	pre   []string
	build enumFault // how the initial build's enumeration ends
	live  bool      // base enumeration is a lazy walk, not a snapshot
}

func parseCfg(s string) cfgT {
	c := cfgT{raw: s, tq: 64, bh: 1, errer: true, view: true}
	for _, kv := range strings.Split(s, ",") {
		k, v, _ := strings.Cut(kv, "=")
		switch k {
		case "layer":
			c.layer = v
		case "tq":
			c.tq, _ = strconv.Atoi(v)
		case "bh":
			c.bh, _ = strconv.Atoi(v)
		case "view":
			c.view = v == "1"
		case "errer":
			c.errer = v == "1"
		case "live":
			c.live = v == "1"
		case "pre":
			if v != "" {
				c.pre = strings.Split(v, "+")
			}
		case "build":
			c.build = parseEnumFault(v)
		}
	}
	return c
}

func parseEnumFault(v string) enumFault {
	if v == "" || v == "ok" {
		return enumFault{}
	}
	k, p, _ := strings.Cut(v, "@")
	n, _ := strconv.Atoi(p)
	return enumFault{kind: k, pos: n}
}

type inst struct {
	cfg     cfgT
	f       *fakeCore
	top     bstore.Blockstore
	status  bstore.BloomCacheStatus
	ctorErr error
}

// newInst builds base store + cache layers. The initial Bloom build is
// started by the constructor; the caller decides when to Wait.
func newInst(c cfgT, concurrent bool) *inst {
	in := &inst{cfg: c, f: newFake()}
	f := in.f
	f.live = c.live
	f.unbuffered = !concurrent
	f.closeOnCancel = concurrent
	for _, n := range c.pre {
		e := byName[n]
		f.m[key(e.c)] = e.data
	}
	base := f.shape(c.view, c.errer)
	ctx, cancel := context.WithCancel(context.Background())
	f.cancelFn = cancel
	if c.layer != "tq" && c.build.kind != "" {
		f.enums = []enumFault{c.build}
	}
	var err error
	switch c.layer {
	case "tq":
		in.top, err = bstore.VerifNewTQ(ctx, base, c.tq)
	case "bloom":
		in.top, err = bstore.VerifNewBloom(ctx, base, 8, c.bh)
	case "both":
		in.top, err = bstore.CachedBlockstore(ctx, base, bstore.CacheOpts{HasBloomFilterSize: 1, HasBloomFilterHashes: c.bh, HasTwoQueueCacheSize: c.tq})
	default:
		panic("bad layer " + c.layer)
	}
	in.ctorErr = err
	if err == nil {
		in.status, _ = in.top.(bstore.BloomCacheStatus)
	}
	return in
}

// ---- canonical call results ----

var errCB = errors.New("callback error")

func errStr(err error) string {
	switch {
	case err == nil:
		return "ok"
	case errors.Is(err, errInjected):
		return "err:injected"
	case errors.Is(err, errCB):
		return "err:cb"
	case ipld.IsNotFound(err):
		return "notfound"
	}
	return "err:" + err.Error()
}

// call executes one blockstore call and renders its result canonically.
// cidBad reports a Get that returned a block under another CID.
func call(bs bstore.Blockstore, name string, es []entry, cbErr bool) (res string, cidBad string) {
	ctx := context.Background()
	switch name {
	case "Put":
		return errStr(bs.Put(ctx, blk(es[0]))), ""
	case "PutMany":
		var bl []blocks.Block
		for _, e := range es {
			bl = append(bl, blk(e))
		}
		return errStr(bs.PutMany(ctx, bl)), ""
	case "Delete":
		return errStr(bs.DeleteBlock(ctx, es[0].c)), ""
	case "Has":
		h, err := bs.Has(ctx, es[0].c)
		if err != nil {
			return errStr(err), ""
		}
		return fmt.Sprint(h), ""
	case "Get":
		b, err := bs.Get(ctx, es[0].c)
		if err != nil {
			return errStr(err), ""
		}
		if b == nil {
			return "nil-block", ""
		}
		if !b.Cid().Equals(es[0].c) {
			cidBad = b.Cid().String()
		}
		return "data:" + string(b.RawData()), cidBad
	case "GetSize":
		n, err := bs.GetSize(ctx, es[0].c)
		if err != nil {
			return errStr(err), ""
		}
		return fmt.Sprintf("size:%d", n), ""
	case "View":
		v, ok := bs.(bstore.Viewer)
		if !ok {
			return "noviewer", ""
		}
		calls := 0
		var got []byte
		err := v.View(ctx, es[0].c, func(b []byte) error {
			calls++
			got = append([]byte{}, b...)
			if cbErr {
				return errCB
			}
			return nil
		})
		if calls > 1 {
			return fmt.Sprintf("callback-called-%d-times", calls), ""
		}
		if calls == 1 {
			if cbErr {
				if !errors.Is(err, errCB) {
					return "cb-error-lost:" + errStr(err), ""
				}
				return "data:" + string(got), ""
			}
			if err != nil {
				return "called+" + errStr(err), ""
			}
			return "data:" + string(got), ""
		}
		if err == nil {
			return "callback-not-called", ""
		}
		return errStr(err), ""
	}
	panic("bad call " + name)
}

// want is the map model's answer for a read.
func want(model map[string][]byte, name string, e entry) string {
	var d []byte
	present := false
	if e.c.Defined() {
		d, present = model[key(e.c)]
	}
	switch name {
	case "Has":
		return fmt.Sprint(present)
	case "Get", "View":
		if present {
			return "data:" + string(d)
		}
		return "notfound"
	case "GetSize":
		if present {
			return fmt.Sprintf("size:%d", len(d))
		}
		return "notfound"
	}
	panic(name)
}

func answerClass(res string) string {
	switch {
	case res == "false" || res == "notfound":
		return "missing"
	case res == "true" || strings.HasPrefix(res, "data:") || strings.HasPrefix(res, "size:"):
		return "present"
	}
	return "other"
}

// ---- sequential system ----

type sys struct {
	in          *inst
	model       map[string][]byte
	failedWrite map[string]string // per cache key: the failed write (fault kind) that named it and was not followed by a successful write of that key
	truncated   bool              // an enumeration of this path was cut short (initial build or Rebuild)
	thorough    bool
	r           *eng.Run
}

func newSys(cfg string, thorough bool, r *eng.Run) eng.Sys {
	c := parseCfg(cfg)
	s := &sys{in: newInst(c, false), model: map[string][]byte{}, failedWrite: map[string]string{}, thorough: thorough, r: r}
	for k, v := range s.in.f.m {
		s.model[k] = v
	}
	if s.in.ctorErr == nil && s.in.status != nil {
		s.in.status.Wait(context.Background())
	}
	s.in.f.cancelFn = nil
	if c.layer != "tq" && (c.build.kind == "err" || c.build.kind == "cancel") {
		s.truncated = true
	}
	return s
}

func (s *sys) hasBloom() bool { return s.in.status != nil }

func (s *sys) Ops() []string {
	if s.in.ctorErr != nil {
		return nil
	}
	var ops []string
	names := []string{"A0", "A1", "B", "C"}
	for _, n := range names {
		ops = append(ops, "Put "+n)
	}
	for _, rd := range []string{"Has", "Get", "GetSize", "View"} {
		for _, n := range append(names, "U") {
			ops = append(ops, rd+" "+n)
		}
	}
	for _, n := range append(names, "U") {
		ops = append(ops, "Delete "+n)
	}
	ops = append(ops, "PutMany", "PutMany B", "PutMany A0 A1", "PutMany A0 B", "PutMany C B", "PutMany B C")
	if s.hasBloom() {
		ops = append(ops, "Rebuild", "Rebuild !precancel", "Rebuild !setup")
		for k := 0; k <= len(s.model); k++ {
			ops = append(ops, fmt.Sprintf("Rebuild !err@%d", k), fmt.Sprintf("Rebuild !cancel@%d", k))
		}
	}
	// base-store faults
	fnames := []string{"A0", "B", "C"}
	if !s.thorough {
		fnames = []string{"A1", "B"}
	}
	for _, n := range fnames {
		ops = append(ops, "Put "+n+" !err", "Put "+n+" !errw", "Delete "+n+" !err", "Delete "+n+" !errw")
	}
	for _, rd := range []string{"Has", "Get", "GetSize", "View"} {
		for _, n := range fnames {
			ops = append(ops, rd+" "+n+" !err")
		}
	}
	ops = append(ops, "View B !cb", "View C !cb")
	ops = append(ops, "PutMany C B !err@0", "PutMany C B !err@1", "PutMany B C !err@1", "PutMany A0 B !err@1")
	return ops
}

func faultClass(name string) string {
	switch name {
	case "Put", "PutMany":
		return "put"
	case "Delete":
		return "del"
	case "Has":
		return "has"
	case "Get", "View":
		return "get"
	case "GetSize":
		return "size"
	}
	return ""
}

func copyMap(m map[string][]byte) map[string][]byte {
	o := make(map[string][]byte, len(m))
	for k, v := range m {
		o[k] = v
	}
	return o
}

// feats: k is the cache key the failing observation is about ("" = none).
func (s *sys) feats(k, fspec string, extra ...string) []string {
	f := []string{"layer", s.in.cfg.layer, "fault", faultKind(fspec), "failed_write_on_key", s.failedWrite[k],
		"truncated_enumeration", fmt.Sprint(s.truncated), "errer", fmt.Sprint(s.in.cfg.errer), "viewer", fmt.Sprint(s.in.cfg.view)}
	return append(f, extra...)
}

// faultKind strips positions: "err@1" -> "err@"
func faultKind(spec string) string {
	if i := strings.IndexByte(spec, '@'); i >= 0 {
		return spec[:i+1]
	}
	return spec
}

func (s *sys) Do(op string) (string, *eng.Violation) {
	fs := strings.Fields(op)
	fspec := ""
	if l := fs[len(fs)-1]; strings.HasPrefix(l, "!") {
		fspec = l[1:]
		fs = fs[:len(fs)-1]
	}
	name := fs[0]
	var es []entry
	for _, n := range fs[1:] {
		es = append(es, byName[n])
	}
	if name == "Rebuild" {
		return s.rebuild(fspec), nil
	}
	f := s.in.f
	var ft *fault
	cbErr := false
	switch {
	case fspec == "cb":
		cbErr = true
	case fspec == "err":
		ft = &fault{class: faultClass(name)}
	case fspec == "errw":
		ft = &fault{class: faultClass(name), post: true}
	case strings.HasPrefix(fspec, "err@"):
		n, _ := strconv.Atoi(fspec[4:])
		ft = &fault{class: faultClass(name), pos: n}
	}
	f.flt = ft
	before := copyMap(s.model)
	nWr := f.calls["Put"] + f.calls["PutMany"] + f.calls["Delete"]
	nBase := f.calls["Has"] + f.calls["Get"] + f.calls["GetSize"] + f.calls["View"]
	res, cidBad := call(s.in.top, name, es, cbErr)
	if s.in.cfg.layer == "bloom" && s.in.status != nil && len(es) == 1 && es[0].c.Defined() && s.in.status.BloomActive() {
		if _, present := s.model[key(es[0].c)]; !present && faultClass(name) != "put" && faultClass(name) != "del" {
			if f.calls["Has"]+f.calls["Get"]+f.calls["GetSize"]+f.calls["View"] > nBase {
				s.r.Add("seq_bloom_false_positive_lookups", 1)
			} else {
				s.r.Add("seq_bloom_negative_hits", 1)
			}
		}
	}
	fired := ft != nil && ft.fired
	f.flt = nil
	if ft != nil {
		if fired {
			s.r.Add("seq_faults_fired", 1)
		} else {
			s.r.Add("seq_faults_masked_by_cache", 1)
		}
	}
	obs := res
	if fired {
		obs += "(fault)"
	}
	fk := ""
	if len(es) > 0 && es[0].c.Defined() {
		fk = key(es[0].c)
	}
	if cidBad != "" {
		return obs, eng.V("get-wrong-cid", name, fmt.Sprintf("%s returned a block with CID %s", op, cidBad), s.feats(fk, fspec)...)
	}
	switch name {
	case "Has", "Get", "GetSize", "View":
		if fired {
			if res != "err:injected" {
				return obs, eng.V("base-error-swallowed", name, fmt.Sprintf("%s: the base store call failed but the cache layer answered %q", op, res), s.feats(fk, fspec)...)
			}
			return obs, nil
		}
		w := want(s.model, name, es[0])
		if res != w {
			return obs, eng.V("read-mismatch", name, fmt.Sprintf("%s = %q, uncached store answers %q (model %s; cache %s)", op, res, w, s.modelStr(), s.cacheStr()),
				s.feats(fk, fspec, "want", answerClass(w), "got", answerClass(res))...)
		}
		return obs, nil
	}
	// mutators
	touched := map[string]entry{}
	for _, e := range es {
		if e.c.Defined() {
			touched[key(e.c)] = e
		}
	}
	if !fired {
		if res != "ok" {
			return obs, eng.V("mutator-error", name, fmt.Sprintf("%s returned %q without any base-store failure", op, res), s.feats(fk, fspec)...)
		}
		reached := f.calls["Put"]+f.calls["PutMany"]+f.calls["Delete"] > nWr
		for k, e := range touched {
			if reached { // a write answered from the cache alone repairs nothing
				delete(s.failedWrite, k)
			}
			if name == "Delete" {
				delete(s.model, k)
			} else {
				s.model[k] = e.data
			}
		}
		return obs, nil
	}
	for k := range touched {
		s.failedWrite[k] = name + "!" + faultKind(fspec)
	}
	if res != "err:injected" {
		return obs, eng.V("base-error-swallowed", name, fmt.Sprintf("%s: the base store call failed but the cache layer returned %q", op, res), s.feats(fk, fspec)...)
	}
	// A failed mutation leaves an unspecified subset of its effects: resolve
	// the model from the base store, after checking that nothing else moved.
	for _, k := range []string{key(byName["A0"].c), key(byName["B"].c), key(byName["C"].c)} {
		bv, bok := f.m[k]
		mv, mok := before[k]
		if _, t := touched[k]; t {
			continue
		}
		if bok != mok || string(bv) != string(mv) {
			return obs, eng.V("base-diverged", name, fmt.Sprintf("%s (failed): untouched key %s differs between base store and model", op, nameOfKey(k)), s.feats(k, fspec)...)
		}
	}
	s.model = copyMap(f.m)
	return obs, nil
}

func (s *sys) rebuild(fspec string) string {
	f := s.in.f
	ctx, cancel := context.WithCancel(context.Background())
	defer cancel()
	f.cancelFn = cancel
	switch {
	case fspec == "":
	case fspec == "precancel":
		cancel()
	default:
		f.enums = []enumFault{parseEnumFault(fspec)}
		if k := f.enums[0].kind; k == "err" || k == "cancel" {
			s.truncated = true
		}
	}
	err := s.in.status.Rebuild(ctx)
	f.enums = nil
	f.cancelFn = nil
	res := "nil"
	if err != nil {
		res = "error"
	}
	return fmt.Sprintf("rebuild:%s active=%v", res, s.in.status.BloomActive())
}

func (s *sys) modelStr() string {
	var ks []string
	for k := range s.model {
		ks = append(ks, nameOfKey(k))
	}
	sort.Strings(ks)
	return "{" + strings.Join(ks, ",") + "}"
}

func (s *sys) cacheStr() string { return bstore.VerifCacheState(s.in.top, nameOfKey) }

func (s *sys) Key() string {
	if s.in.ctorErr != nil {
		return "ctor-error"
	}
	cs := s.cacheStr()
	if strings.Contains(cs, "recentEvict[") && !strings.Contains(cs, "recentEvict[]") {
		s.r.Add("seq_transitions_into_state_with_2q_ghost_entries", 1)
	}
	if strings.Contains(cs, "frequent[") && !strings.Contains(cs, "frequent[]") && strings.Contains(cs, "recent[") && !strings.Contains(cs, "recent[]") {
		s.r.Add("seq_transitions_into_state_with_both_2q_queues_filled", 1)
	}
	return "M" + s.modelStr() + " " + cs
}

func (s *sys) Check() *eng.Violation {
	if s.in.ctorErr != nil {
		return nil
	}
	f := s.in.f
	// base store content == model (write-through must have happened)
	for _, k := range []string{key(byName["A0"].c), key(byName["B"].c), key(byName["C"].c)} {
		bv, bok := f.m[k]
		mv, mok := s.model[k]
		if bok != mok || string(bv) != string(mv) {
			return eng.V("base-diverged", "", fmt.Sprintf("key %s: base store has=%v, model has=%v (cache %s)", nameOfKey(k), bok, mok, s.cacheStr()), s.feats(k, "")...)
		}
	}
	if len(f.m) != len(s.model) {
		return eng.V("base-diverged", "", "base store holds keys outside the pool", s.feats("", "")...)
	}
	cs := s.cacheStr()
	for _, rd := range []string{"Has", "GetSize", "Get", "View"} {
		for _, e := range observe {
			res, cidBad := call(s.in.top, rd, []entry{e}, false)
			ek := ""
			if e.c.Defined() {
				ek = key(e.c)
			}
			if cidBad != "" {
				return eng.V("get-wrong-cid", rd, fmt.Sprintf("%s %s returned a block with CID %s", rd, e.name, cidBad), s.feats(ek, "")...)
			}
			if w := want(s.model, rd, e); res != w {
				return eng.V("read-mismatch", rd, fmt.Sprintf("after the sequence: %s %s = %q, uncached store answers %q (model %s; cache before the reads %s)", rd, e.name, res, w, s.modelStr(), cs),
					s.feats(ek, "", "want", answerClass(w), "got", answerClass(res))...)
			}
		}
	}
	// enumeration through the cache layers
	ch, err := s.in.top.AllKeysChan(context.Background())
	if err != nil {
		return eng.V("allkeys-error", "AllKeysChan", err.Error(), s.feats("", "")...)
	}
	got := []string{}
	for c := range ch {
		got = append(got, nameOfKey(key(c)))
	}
	sort.Strings(got)
	if g := "{" + strings.Join(got, ",") + "}"; g != s.modelStr() {
		return eng.V("allkeys-mismatch", "AllKeysChan", fmt.Sprintf("AllKeysChan=%s model=%s", g, s.modelStr()), s.feats("", "")...)
	}
	return nil
}

func (s *sys) Close() {}

var _ = cid.Undef

func seqConfigs(thorough bool) []string {
	var out []string
	// two-queue cache alone: eviction-heavy sizes and one that never evicts
	for _, tq := range []string{"2", "3", "4", "64"} {
		for _, v := range []string{"1", "0"} {
			if !thorough && (tq == "3" || (tq == "4" && v == "0")) {
				continue
			}
			out = append(out, "layer=tq,tq="+tq+",view="+v)
		}
	}
	out = append(out, "layer=tq,tq=1") // constructor error
	// Bloom cache alone
	for _, b := range []string{"pre=,build=ok", "pre=A0+B,build=ok", "pre=A0+B,build=err@1", "pre=B,build=err@0", "pre=A0+B,build=cancel@1", "pre=B,build=setup", "pre=A0+B,build=err@2"} {
		for _, v := range []string{"1", "0"} {
			for _, bh := range []string{"1", "3"} {
				if bh == "3" && (v == "0" || !thorough) {
					continue
				}
				if !thorough && v == "0" && !strings.Contains(b, "build=ok") {
					continue
				}
				out = append(out, "layer=bloom,bh="+bh+",view="+v+","+b)
			}
		}
	}
	// base store that cannot report enumeration errors
	out = append(out, "layer=bloom,errer=0,pre=A0+B,build=ok", "layer=bloom,errer=0,pre=A0+B,build=err@1", "layer=bloom,errer=0,pre=B,build=err@0")
	// public constructor: both layers
	for _, tq := range []string{"2", "64"} {
		for _, b := range []string{"pre=,build=ok", "pre=A0+B,build=ok", "pre=A0+B,build=err@1"} {
			if !thorough && tq == "64" && b != "pre=A0+B,build=ok" {
				continue
			}
			out = append(out, "layer=both,tq="+tq+","+b)
		}
	}
	out = append(out, "layer=both,tq=4,view=0,pre=B,build=ok")
	return out
}
