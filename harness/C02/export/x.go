//go:build verif

package blockstore

import (
	"context"
	"fmt"
	"reflect"
	"strings"
	"unsafe"
)

// VerifNewTQ builds the package-internal two-queue existence cache.
func VerifNewTQ(ctx context.Context, bs Blockstore, size int) (Blockstore, error) {
	c, err := newTwoQueueCachedBS(ctx, bs, size)
	if err != nil {
		return nil, err
	}
	return c, nil
}

// VerifNewBloom builds the package-internal Bloom filter cache (size in bits).
func VerifNewBloom(ctx context.Context, bs Blockstore, bits, hashes int) (Blockstore, error) {
	c, err := bloomCached(ctx, bs, bits, hashes)
	if err != nil {
		return nil, err
	}
	return c, nil
}

// VerifInner returns the store wrapped by a cache layer (nil if bs is no cache layer).
func VerifInner(bs Blockstore) Blockstore {
	switch c := bs.(type) {
	case *bloomcache:
		return c.blockstore
	case *tqcache:
		return c.blockstore
	}
	return nil
}

func verifLRUKeys(v reflect.Value, name string) []string {
	f := v.FieldByName(name)
	f = reflect.NewAt(f.Type(), unsafe.Pointer(f.UnsafeAddr())).Elem()
	out := f.MethodByName("Keys").Call(nil)[0]
	ks := make([]string, out.Len())
	for i := range ks {
		ks[i] = out.Index(i).String()
	}
	return ks
}

// VerifCacheState renders the complete hidden state of the cache layers of bs
// (read-only): 2Q frequent / recent / ghost lists in order with the cached
// values, number of per-key lock records, Bloom active flag and filter bits.
// Only for sequential (passthrough) use.
func VerifCacheState(bs Blockstore, name func(key string) string) string {
	var sb strings.Builder
	for bs != nil {
		switch c := bs.(type) {
		case *bloomcache:
			// an inactive filter at quiescence is dead state: only Rebuild can
			// activate, and it swaps in a fresh filter first
			if c.BloomActive() {
				fmt.Fprintf(&sb, "bloom{active bits=%s}", c.bloom.Load().JSONMarshalTS())
			} else {
				sb.WriteString("bloom{inactive}")
			}
			bs = c.blockstore
		case *tqcache:
			v := reflect.ValueOf(c.cache).Elem()
			sb.WriteString("tq{")
			for _, q := range []string{"frequent", "recent", "recentEvict"} {
				sb.WriteString(q + "[")
				for _, k := range verifLRUKeys(v, q) {
					sb.WriteString(name(k))
					if val, ok := c.cache.Peek(k); ok {
						fmt.Fprintf(&sb, "=%T:%v", val, val)
					}
					sb.WriteString(" ")
				}
				sb.WriteString("]")
			}
			c.lklk.Lock()
			fmt.Fprintf(&sb, " lks=%d}", len(c.lks))
			c.lklk.Unlock()
			bs = c.blockstore
		default:
			return sb.String()
		}
	}
	return sb.String()
}
