//go:build verif

package main

import (
	"fmt"

	bloom "github.com/ipfs/bbloom"
	blocks "github.com/ipfs/go-block-format"
	cid "github.com/ipfs/go-cid"
	mh "github.com/multiformats/go-multihash"
)

// Pool: A0/A1 are two CIDs (v0, v1 dag-pb) of the same multihash (one cache
// key); B and C are distinct blocks forced to collide in the smallest Bloom
// filter boxo can build (bbloom rounds every size up to 512 bits; with one
// hash location B and C set/test the same bit, so every lookup of one while
// only the other is stored is a live false positive); U is cid.Undef.
type entry struct {
	name string
	c    cid.Cid
	data []byte
}

var (
	pool    []entry // putable
	observe []entry // pool + U
	byName  = map[string]entry{}
	keyName = map[string]string{} // multihash -> short name
)

func sum(d []byte) mh.Multihash {
	h, err := mh.Sum(d, mh.SHA2_256, -1)
	if err != nil {
		panic(err)
	}
	return h
}

func init() {
	a := []byte("a")
	// deterministic search for a colliding pair (1 hash location, 512 bits)
	var bD, cD []byte
	type cand struct {
		d []byte
		h mh.Multihash
	}
	var cs []cand
search:
	for i := 0; i < 4000; i++ {
		d := []byte(fmt.Sprintf("blk-%d", i))
		h := sum(d)
		for _, o := range cs {
			f, _ := bloom.New(8, 1)
			f.Add(o.h)
			if f.Has(h) {
				fa, _ := bloom.New(8, 1)
				fa.Add(sum(a))
				if !fa.Has(h) && !fa.Has(o.h) {
					bD, cD = o.d, d
					break search
				}
			}
		}
		cs = append(cs, cand{d, h})
	}
	if bD == nil {
		panic("no colliding pair found")
	}
	add := func(name string, c cid.Cid, d []byte) {
		e := entry{name, c, d}
		pool = append(pool, e)
		byName[name] = e
	}
	add("A0", cid.NewCidV0(sum(a)), a)
	add("A1", cid.NewCidV1(cid.DagProtobuf, sum(a)), a)
	add("B", cid.NewCidV1(cid.Raw, sum(bD)), bD)
	add("C", cid.NewCidV1(cid.Raw, sum(cD)), cD)
	observe = append(append([]entry{}, pool...), entry{name: "U", c: cid.Undef})
	byName["U"] = observe[len(observe)-1]
	keyName[string(sum(a))] = "A"
	keyName[string(sum(bD))] = "B"
	keyName[string(sum(cD))] = "C"
}

func nameOfKey(k string) string {
	if n, ok := keyName[k]; ok {
		return n
	}
	return fmt.Sprintf("?%x", k)
}

func blk(e entry) blocks.Block {
	b, err := blocks.NewBlockWithCid(e.data, e.c)
	if err != nil {
		panic(err)
	}
	return b
}
