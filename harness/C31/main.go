//go:build verif

package main

import (
	"bytes"
	"context"
	"encoding/json"
	"errors"
	"fmt"
	"io"
	"net/http"
	"net/http/httptest"
	"net/url"
	"sort"
	"strconv"
	"strings"

	"github.com/ipfs/boxo/blockservice"
	"github.com/ipfs/boxo/blockstore"
	chunker "github.com/ipfs/boxo/chunker"
	"github.com/ipfs/boxo/exchange/offline"
	bsfetcher "github.com/ipfs/boxo/fetcher/impl/blockservice"
	"github.com/ipfs/boxo/gateway"
	"github.com/ipfs/boxo/ipld/merkledag"
	"github.com/ipfs/boxo/ipld/unixfs/importer/balanced"
	ihelper "github.com/ipfs/boxo/ipld/unixfs/importer/helpers"
	"github.com/ipfs/boxo/ipld/unixfs/importer/trickle"
	uio "github.com/ipfs/boxo/ipld/unixfs/io"
	"github.com/ipfs/boxo/path"
	"github.com/ipfs/boxo/path/resolver"
	"github.com/ipfs/boxo/verifshim/eng"
	blocks "github.com/ipfs/go-block-format"
	cid "github.com/ipfs/go-cid"
	ds "github.com/ipfs/go-datastore"
	dssync "github.com/ipfs/go-datastore/sync"
	format "github.com/ipfs/go-ipld-format"
	"github.com/ipfs/go-unixfsnode"
	dagpb "github.com/ipld/go-codec-dagpb"
	car "github.com/ipld/go-car/v2"
	"github.com/prometheus/client_golang/prometheus"
)

func must(err error) {
	if err != nil {
		panic(err)
	}
}

// ---------------------------------------------------------------------------
// world: one in-memory store with all trees, one gateway handler on top

type node struct {
	nd      format.Node
	c       cid.Cid
	kind    string // file | basic | hamt
	data    []byte
	chunk   int
	entries map[string]*node
	all     map[string]bool // every CID (KeyString) of the DAG below and including this node
}

type world struct {
	bsv   blockservice.BlockService
	dserv format.DAGService
	h     http.Handler
	roots map[string]*node
}

func newStore() (blockservice.BlockService, format.DAGService) {
	bs := blockstore.NewBlockstore(dssync.MutexWrap(ds.NewMapDatastore()))
	bsv := blockservice.New(bs, offline.Exchange(bs))
	return bsv, merkledag.NewDAGService(bsv)
}

func (w *world) file(data []byte, chunk, maxlinks int, raw, trick bool) *node {
	p := ihelper.DagBuilderParams{Dagserv: w.dserv, Maxlinks: maxlinks, RawLeaves: raw, CidBuilder: merkledag.V1CidPrefix()}
	if !raw {
		p.CidBuilder = merkledag.V0CidPrefix()
	}
	db, err := p.New(chunker.NewSizeSplitter(bytes.NewReader(data), int64(chunk)))
	must(err)
	var nd format.Node
	if trick {
		nd, err = trickle.Layout(db)
	} else {
		nd, err = balanced.Layout(db)
	}
	must(err)
	return &node{nd: nd, c: nd.Cid(), kind: "file", data: data, chunk: chunk}
}

func (w *world) dir(kind string, names []string, ch []*node) *node {
	var d uio.Directory
	var err error
	switch kind {
	case "basic":
		d, err = uio.NewBasicDirectory(w.dserv)
	case "hamt":
		d, err = uio.NewHAMTDirectory(w.dserv, 0, uio.WithMaxHAMTFanout(8))
	case "hamt256":
		d, err = uio.NewHAMTDirectory(w.dserv, 0, uio.WithMaxHAMTFanout(256))
		kind = "hamt"
	}
	must(err)
	n := &node{kind: kind, entries: map[string]*node{}}
	for i, nm := range names {
		must(d.AddChild(context.Background(), nm, ch[i].nd))
		n.entries[nm] = ch[i]
	}
	nd, err := d.GetNode()
	must(err)
	must(w.dserv.Add(context.Background(), nd))
	n.nd, n.c = nd, nd.Cid()
	return n
}

func pattern(n int, salt byte) []byte {
	b := make([]byte, n)
	for i := range b {
		b[i] = byte((i*7+(i/251)*3)%251) ^ salt
	}
	return b
}

func (w *world) closure(n *node) {
	if n.all != nil {
		return
	}
	n.all = map[string]bool{}
	must(merkledag.Walk(context.Background(), merkledag.GetLinksDirect(w.dserv), n.c, func(c cid.Cid) bool {
		if n.all[c.KeyString()] {
			return false
		}
		n.all[c.KeyString()] = true
		return true
	}))
	for _, e := range n.entries {
		w.closure(e)
	}
}

func newWorld(thorough bool) *world {
	w := &world{roots: map[string]*node{}}
	w.bsv, w.dserv = newStore()
	backend, err := gateway.NewBlocksBackend(w.bsv)
	must(err)
	w.h = gateway.NewHandler(gateway.Config{DeserializedResponses: true, MetricsRegistry: prometheus.NewRegistry()}, backend)

	fA := w.file([]byte("hello"), 16, 2, true, false)          // one raw block
	fA2 := w.file([]byte("hello pb"), 16, 2, false, false)     // one dag-pb block
	fB := w.file(pattern(10, 0), 3, 2, true, false)            // 4 raw leaves, 3 levels
	fC := w.file(pattern(10, 0x55), 3, 2, false, true)         // dag-pb leaves, trickle
	fD := w.file([]byte("abcabcabcabc"), 3, 2, true, false)    // 4 identical leaves
	fE := w.file(nil, 4, 2, true, false)                       // empty
	fF := w.file(pattern(37, 0x21), 5, 3, true, false)         // 8 leaves, fan-out 3
	sub := w.dir("basic", []string{"h"}, []*node{fC})
	basic := w.dir("basic", []string{"f", "g", "d", "e", "sub"}, []*node{fA, fB, fD, fE, sub})
	var hn []string
	var hc []*node
	nh := 12
	if thorough {
		nh = 40
	}
	for i := 0; i < nh; i++ {
		hn = append(hn, fmt.Sprintf("n%02d", i))
		switch i {
		case 3:
			hc = append(hc, fB)
		case 5:
			hc = append(hc, basic)
		case 7:
			hc = append(hc, fF)
		default:
			hc = append(hc, w.file([]byte(fmt.Sprintf("hamt entry %d", i)), 16, 2, true, false))
		}
	}
	hamt := w.dir("hamt", hn, hc)
	top := w.dir("basic", []string{"hamt", "basic", "pb"}, []*node{hamt, basic, fA2})
	w.roots["top"] = top
	w.roots["hamt"] = hamt
	w.roots["fileB"] = fB
	w.roots["fileA"] = fA
	w.roots["fileD"] = fD
	if thorough {
		var wn []string
		var wc []*node
		for i := 0; i < 300; i++ {
			wn = append(wn, fmt.Sprintf("w%03d", i))
			wc = append(wc, w.file([]byte(fmt.Sprintf("wide entry %d", i)), 16, 2, true, false))
		}
		wn = append(wn, "deep")
		wc = append(wc, top)
		w.roots["hamt256"] = w.dir("hamt256", wn, wc)
		w.roots["fileF"] = fF
		w.roots["fileG"] = w.file(pattern(1000, 0x42), 256, 2, true, false) // 4 leaves of 256 bytes, 3 levels
		w.roots["fileH"] = w.file(pattern(1000, 0x43), 100, 3, false, true) // 10 dag-pb leaves, trickle
	}
	for _, r := range w.roots {
		w.closure(r)
	}
	return w
}

// every path from a root to every entry
type target struct {
	root string
	segs []string
	n    *node
}

func (w *world) targets(thorough bool) []target {
	var out []target
	var rec func(root string, segs []string, n *node, depth int)
	rec = func(root string, segs []string, n *node, depth int) {
		out = append(out, target{root, append([]string{}, segs...), n})
		names := make([]string, 0, len(n.entries))
		for k := range n.entries {
			names = append(names, k)
		}
		sort.Strings(names)
		for i, k := range names {
			if root == "hamt256" && i%25 != 0 && k != "deep" {
				continue // the wide directory: every 25th entry
			}
			if root == "hamt256" && depth >= 2 {
				continue
			}
			rec(root, append(segs, k), n.entries[k], depth+1)
		}
	}
	rn := make([]string, 0, len(w.roots))
	for k := range w.roots {
		rn = append(rn, k)
	}
	sort.Strings(rn)
	for _, k := range rn {
		rec(k, nil, w.roots[k], 0)
	}
	return out
}

// ---------------------------------------------------------------------------
// requests

type request struct {
	Thorough bool     `json:"thorough"`
	Root     string   `json:"root"`
	Segs     []string `json:"segs"`
	Format   string   `json:"format"` // raw | car
	Scope    string   `json:"scope"`  // "", block, entity, all
	Range    string   `json:"range"`  // "" or from:to
	Dups     string   `json:"dups"`   // "", y, n
	Accept   bool     `json:"accept"` // parameters through the Accept header instead of the query
}

func (q request) url(w *world) string {
	p := "/ipfs/" + w.roots[q.Root].c.String()
	for _, s := range q.Segs {
		p += "/" + url.PathEscape(s)
	}
	v := url.Values{}
	if !q.Accept {
		v.Set("format", q.Format)
		if q.Dups != "" {
			v.Set("car-dups", q.Dups)
		}
	}
	if q.Scope != "" {
		v.Set("dag-scope", q.Scope)
	}
	if q.Range != "" {
		v.Set("entity-bytes", q.Range)
	}
	return p + "?" + v.Encode()
}

func (q request) do(w *world) *httptest.ResponseRecorder {
	req := httptest.NewRequest("GET", "http://gw.example"+q.url(w), nil)
	if q.Accept {
		a := "application/vnd.ipld.raw"
		if q.Format == "car" {
			a = "application/vnd.ipld.car; version=1"
			if q.Dups != "" {
				a += "; dups=" + q.Dups
			}
		}
		req.Header.Set("Accept", a)
	}
	rec := httptest.NewRecorder()
	w.h.ServeHTTP(rec, req)
	return rec
}

// parseRange: reference reading of entity-bytes for a file of the given size.
// valid=false: syntactically invalid (from after to with the same sign).
// Returns the inclusive byte interval [lo,hi] clamped to the file; empty=true when it selects nothing.
func parseRange(s string, size int64) (lo, hi int64, empty, valid bool) {
	if s == "" {
		return 0, size - 1, size == 0, true
	}
	a, b, _ := strings.Cut(s, ":")
	from, err := strconv.ParseInt(a, 10, 64)
	must(err)
	var to int64
	star := b == "*"
	if !star {
		to, err = strconv.ParseInt(b, 10, 64)
		must(err)
		if (from >= 0) == (to >= 0) && from > to {
			return 0, 0, true, false
		}
	}
	lo = from
	if from < 0 {
		lo = size + from
		if lo < 0 {
			lo = 0
		}
	}
	switch {
	case star:
		hi = size - 1
	case to < 0:
		hi = size + to
	default:
		hi = to
	}
	if hi > size-1 {
		hi = size - 1
	}
	if lo > hi || lo >= size {
		return 0, 0, true, true
	}
	return lo, hi, false, true
}

// ---------------------------------------------------------------------------
// oracle

type carContent struct {
	roots  []cid.Cid
	blocks []blocks.Block
}

func readCAR(b []byte) (*carContent, error) {
	br, err := car.NewBlockReader(bytes.NewReader(b), car.WithTrustedCAR(true))
	if err != nil {
		return nil, fmt.Errorf("header: %w", err)
	}
	cc := &carContent{roots: br.Roots}
	for {
		blk, err := br.Next()
		if errors.Is(err, io.EOF) {
			return cc, nil
		}
		if err != nil {
			return cc, fmt.Errorf("after %d blocks: %w", len(cc.blocks), err)
		}
		cc.blocks = append(cc.blocks, blk)
	}
}

func termKind(n *node) string {
	if n.kind != "file" {
		return n.kind + "-dir"
	}
	if len(n.data) > n.chunk {
		return "file-multiblock"
	}
	return "file-single"
}

func judge(w *world, q request, t *node, rec *httptest.ResponseRecorder) (*eng.Violation, string) {
	size := int64(len(t.data))
	lo, hi, empty, valid := parseRange(q.Range, size)
	rangeApplies := q.Format == "car" && q.Scope == "entity" && t.kind == "file"
	scope := q.Scope
	if scope == "" {
		scope = "all"
	}
	rk := "none"
	if q.Range != "" {
		switch {
		case !valid:
			rk = "invalid"
		case empty:
			rk = "empty"
		case strings.Contains(q.Range, "-"):
			rk = "negative"
		default:
			rk = "positive"
		}
	}
	feat := []string{"format", q.Format, "scope", scope, "terminal", termKind(t), "range", rk, "dups", orNone(q.Dups), "status", strconv.Itoa(rec.Code), "path_depth", strconv.Itoa(len(q.Segs))}
	mk := func(sym, detail string) *eng.Violation {
		v := eng.V(sym, q.Format, fmt.Sprintf("GET %s (root=%s /%s terminal %s %s size=%d) -> %d %d bytes: %s", q.url(w), q.Root, strings.Join(q.Segs, "/"), termKind(t), t.c, size, rec.Code, rec.Body.Len(), detail), feat...)
		v.Replay = q
		return v
	}
	body := rec.Body.Bytes()
	if q.Format == "raw" {
		if rec.Code != 200 {
			return mk("unexpected-status", strings.TrimSpace(string(body))), "raw-error"
		}
		got, err := t.c.Prefix().Sum(body)
		if err != nil || !got.Equals(t.c) {
			return mk("raw-block-does-not-hash-to-cid", fmt.Sprintf("body hashes to %s", got)), "raw"
		}
		return nil, "raw-ok"
	}
	if q.Range != "" && !valid {
		if rec.Code/100 == 4 {
			return nil, "car-400-invalid-range"
		}
		return mk("invalid-range-accepted", "from is after to, want a 4xx"), "car"
	}
	if rec.Code != 200 {
		return mk("unexpected-status", strings.TrimSpace(string(body))), "car-error"
	}
	cc, err := readCAR(body)
	if err != nil {
		return mk("car-not-parsable", err.Error()), "car"
	}
	// 1. every block self-certifies, duplicates only when requested
	seen := map[string]int{}
	for _, b := range cc.blocks {
		got, err := b.Cid().Prefix().Sum(b.RawData())
		if err != nil || !got.Equals(b.Cid()) {
			return mk("car-block-hash-mismatch", fmt.Sprintf("block %s does not hash to its CID", b.Cid())), "car"
		}
		seen[b.Cid().KeyString()]++
	}
	if q.Dups != "y" {
		for _, b := range cc.blocks {
			if seen[b.Cid().KeyString()] > 1 {
				return mk("unrequested-duplicate-block", fmt.Sprintf("block %s appears %d times", b.Cid(), seen[b.Cid().KeyString()])), "car"
			}
		}
	}
	// 2. root
	if len(cc.roots) != 1 || !cc.roots[0].Equals(t.c) {
		return mk("car-wrong-root", fmt.Sprintf("roots %v, want [%s]", cc.roots, t.c)), "car"
	}
	// 3. offline replay from nothing but the CAR
	obsv, odag := newStore()
	ctx := context.Background()
	for _, b := range cc.blocks {
		must(obsv.AddBlock(ctx, b))
	}
	streamErr := rec.Header().Get("X-Stream-Error")
	missing := func(what string, err error) *eng.Violation {
		d := fmt.Sprintf("%s from the CAR's %d blocks alone: %v", what, len(cc.blocks), err)
		if streamErr != "" {
			d += " (X-Stream-Error: " + streamErr + ")"
		}
		return mk("car-insufficient", d)
	}
	// 3a. path traversal
	fc := bsfetcher.NewFetcherConfig(obsv)
	fc.PrototypeChooser = dagpb.AddSupportToChooser(bsfetcher.DefaultPrototypeChooser)
	res := resolver.NewBasicResolver(fc.WithReifier(unixfsnode.Reify))
	pp, err := path.NewPathFromSegments(append([]string{"ipfs", w.roots[q.Root].c.String()}, q.Segs...)...)
	must(err)
	ip, err := path.NewImmutablePath(pp)
	must(err)
	got, rem, err := res.ResolveToLastNode(ctx, ip)
	if err != nil {
		return missing("cannot resolve the path", err), "car"
	}
	if !got.Equals(t.c) || len(rem) != 0 {
		return mk("car-path-resolves-elsewhere", fmt.Sprintf("offline resolution gives %s rem %v", got, rem)), "car"
	}
	// 3b. scope
	tn, err := odag.Get(ctx, t.c)
	if err != nil {
		return missing("terminal block "+t.c.String()+" not available", err), "car"
	}
	out := "car-" + scope
	switch scope {
	case "block":
	case "all":
		n := 0
		err := merkledag.Walk(ctx, merkledag.GetLinksDirect(odag), t.c, func(c cid.Cid) bool { n++; return true })
		if err != nil {
			return missing("cannot walk the whole DAG", err), "car"
		}
		for k := range t.all {
			if seen[k] == 0 {
				c, _ := cid.Cast([]byte(k))
				return missing("block "+c.String()+" of the DAG is absent", errors.New("absent")), "car"
			}
		}
	case "entity":
		switch t.kind {
		case "file":
			if rangeApplies && empty {
				out += "-empty-range"
				break
			}
			dr, err := uio.NewDagReader(ctx, tn, odag)
			if err != nil {
				return missing("cannot open the file", err), "car"
			}
			if _, err := dr.Seek(lo, io.SeekStart); err != nil {
				return missing(fmt.Sprintf("cannot seek to %d", lo), err), "car"
			}
			buf := make([]byte, hi-lo+1)
			if _, err := io.ReadFull(dr, buf); err != nil {
				return missing(fmt.Sprintf("cannot read bytes %d..%d", lo, hi), err), "car"
			}
			if !bytes.Equal(buf, t.data[lo:hi+1]) {
				return mk("car-wrong-file-bytes", fmt.Sprintf("bytes %d..%d read offline differ from the file", lo, hi)), "car"
			}
			if q.Range != "" {
				out += "-range"
			}
		default:
			d, err := uio.NewDirectoryFromNode(odag, tn)
			if err != nil {
				return missing("cannot open the directory", err), "car"
			}
			links, err := d.Links(ctx)
			if err != nil {
				return missing("cannot enumerate the directory", err), "car"
			}
			if len(links) != len(t.entries) {
				return mk("car-wrong-directory-listing", fmt.Sprintf("%d entries offline, want %d", len(links), len(t.entries))), "car"
			}
			for _, l := range links {
				e, ok := t.entries[l.Name]
				if !ok || !e.c.Equals(l.Cid) {
					return mk("car-wrong-directory-listing", fmt.Sprintf("entry %q -> %s", l.Name, l.Cid)), "car"
				}
			}
		}
	}
	if streamErr != "" {
		if rangeApplies && empty {
			return nil, out + "-stream-error"
		}
		return mk("car-stream-error", "X-Stream-Error: "+streamErr), out
	}
	return nil, out
}

func orNone(s string) string {
	if s == "" {
		return "none"
	}
	return s
}

// ---------------------------------------------------------------------------
// enumeration

func ranges(t *node, thorough bool) []string {
	if t.kind != "file" {
		return []string{"", "0:*", "1:3", "-2:*", "3:1"}
	}
	size := int64(len(t.data))
	c := int64(t.chunk)
	pos := map[int64]bool{0: true, 1: true, size - 1: true, size: true, size + 5: true, 3: true}
	neg := map[int64]bool{-1: true, -2: true, -5: true, -size: true, -(size + 5): true}
	if thorough {
		for _, v := range []int64{c - 1, c, c + 1, 2 * c, size / 2} {
			pos[v] = true
		}
		neg[-c] = true
		neg[-(c + 1)] = true
	}
	var vals []int64
	for v := range pos {
		if v >= 0 {
			vals = append(vals, v)
		}
	}
	for v := range neg {
		if v < 0 {
			vals = append(vals, v)
		}
	}
	sort.Slice(vals, func(i, j int) bool { return vals[i] < vals[j] })
	out := []string{""}
	for _, f := range vals {
		out = append(out, fmt.Sprintf("%d:*", f))
		for _, to := range vals {
			if !thorough && size <= 1 && (f > 1 || to > 1) {
				continue
			}
			out = append(out, fmt.Sprintf("%d:%d", f, to))
		}
	}
	return out
}

func body(r *eng.Run) {
	th := r.Thorough()
	r.Rule("for every path from 5 (thorough 9) roots to every entry of the trees (1-block raw and dag-pb files, 3-level balanced / trickle files, a file of 4 identical leaves, an empty file, a 37-byte fan-out-3 file, nested basic directories, a HAMT fan-out 8 with 12 (40) entries = 2-3 levels, thorough: HAMT fan-out 256 with 301 entries) x format raw | car x dag-scope {absent, block, entity, all} x entity-bytes {absent} + {from:*, from:to} over from,to in {0,1,3,size-1,size,size+5,-1,-2,-5,-size,-(size+5)} (+chunk boundaries) x dups {absent,y,n} x parameters in the query or in the Accept header; every CAR is decoded and replayed into an empty offline store; non-trivial = every request")
	r.Assume("go-car's reader decodes the CARv1 framing correctly (hashes are re-checked by the harness); uio.DagReader / uio.Directory / merkledag.Walk / the path resolver are used as the offline verifier")
	r.Assume("negative entity-bytes offsets count from the end as in the specification's examples (-1024:* = last 1024 bytes, so to=-1 is the last byte)")
	w := newWorld(th)
	ts := w.targets(th)
	r.Set("targets", len(ts))
	r.Set("roots", len(w.roots))
	eng.ParFor(len(ts), func(i int) {
		if r.Expired() {
			return
		}
		t := ts[i]
		n := 0
		exec := func(q request) {
			q.Thorough = th
			runOne(r, w, q, t.n)
			n++
		}
		exec(request{Root: t.root, Segs: t.segs, Format: "raw"})
		exec(request{Root: t.root, Segs: t.segs, Format: "raw", Accept: true})
		for _, scope := range []string{"", "block", "entity", "all"} {
			rs := ranges(t.n, th)
			if scope != "entity" {
				rs = []string{"", "0:*", "1:3", "-2:*", "3:1"}
			}
			for _, rg := range rs {
				for _, dups := range []string{"", "y", "n"} {
					for _, acc := range []bool{false, true} {
						if acc && rg != "" && rg != "1:3" {
							continue
						}
						exec(request{Root: t.root, Segs: t.segs, Format: "car", Scope: scope, Range: rg, Dups: dups, Accept: acc})
					}
				}
			}
		}
		r.Eval(n)
	})
	if r.Expired() {
		r.Incomplete("budget expired")
	}
}

func runOne(r *eng.Run, w *world, q request, t *node) {
	var rec *httptest.ResponseRecorder
	if g := eng.Guard(q.Format, func() { rec = q.do(w) }); g != nil {
		g.Replay = q
		r.Report(g)
		return
	}
	var v *eng.Violation
	var out string
	if g := eng.Guard("verify", func() { v, out = judge(w, q, t, rec) }); g != nil {
		g.Replay = q
		r.Report(g)
		return
	}
	if v != nil {
		r.Report(v)
	}
	r.Outcome(out)
	r.Add("outcome:"+out, 1)
	b, _ := json.Marshal(q)
	r.Distinct(string(b))
	if q.Scope == "entity" && q.Range == "1:3" && q.Dups == "y" && !q.Accept {
		r.Sample(map[string]any{"url": q.url(w), "status": rec.Code, "bytes": rec.Body.Len(), "outcome": out})
	}
}

func replay(r *eng.Run, raw json.RawMessage) {
	var q request
	must(json.Unmarshal(raw, &q))
	w := newWorld(q.Thorough)
	t := w.roots[q.Root]
	for _, s := range q.Segs {
		t = t.entries[s]
	}
	rec := q.do(w)
	fmt.Printf("replay: GET %s accept=%v\n  -> %d, %d bytes, Content-Type=%q X-Stream-Error=%q\n", q.url(w), q.Accept, rec.Code, rec.Body.Len(), rec.Header().Get("Content-Type"), rec.Header().Get("X-Stream-Error"))
	if rec.Code != 200 {
		fmt.Printf("  body: %q\n", rec.Body.String())
	} else if q.Format == "car" {
		if cc, err := readCAR(rec.Body.Bytes()); cc != nil {
			fmt.Printf("  roots=%v err=%v\n", cc.roots, err)
			for _, b := range cc.blocks {
				fmt.Printf("  block %s (%d bytes)\n", b.Cid(), len(b.RawData()))
			}
		}
	}
	v, out := judge(w, q, t, rec)
	fmt.Printf("  outcome: %s\n", out)
	if v != nil {
		r.Report(v)
	}
	r.Eval(1)
}

func main() {
	eng.Main("C31", "exploration", body, replay)
}
