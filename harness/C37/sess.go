//go:build verif

// C37, second seam: want-list clean-up at the session level. Real
// session.Session (run loop, sessionWants, sessionWantSender over a rewritten
// gammazero/chanqueue) + real getter + real notifications + real (native)
// SessionInterestManager / BlockPresenceManager; PeerManager, SessionManager
// and SessionPeerManager are recording fakes that keep the node's want-list
// (wants sent minus cancels sent) the way PeerManager/SessionManager do.
package main

import (
	"context"
	"fmt"
	"sort"
	"strings"
	"time"

	bsbpm "github.com/ipfs/boxo/bitswap/client/internal/blockpresencemanager"
	"github.com/ipfs/boxo/bitswap/client/internal/notifications"
	bspm "github.com/ipfs/boxo/bitswap/client/internal/peermanager"
	"github.com/ipfs/boxo/bitswap/client/internal/session"
	bssim "github.com/ipfs/boxo/bitswap/client/internal/sessioninterestmanager"
	"github.com/ipfs/boxo/verifshim/eng"
	"github.com/ipfs/boxo/verifshim/vexp"
	"github.com/ipfs/boxo/verifshim/vsched"
	cid "github.com/ipfs/go-cid"
	peer "github.com/libp2p/go-libp2p/core/peer"
)

type sessScript struct {
	name     string
	keys     []int
	haves    bool // a peer answers HAVE for the keys: the want sender sends want-blocks to it
	closeSes bool // the racing thread closes the session (else it cancels the request context)
	gate     bool // the racing thread starts when the want sender has entered PeerManager.SendWants (want sender in flight)
	delta    int
	deltaT   int
}

type sessExec struct {
	sc          *sessScript
	log         []string
	wants       map[int]bool // the node's want-list
	final       []int
	ended       bool // the close / cancel call returned
	inSend      chan struct{}
	bcast       chan struct{}
	atIdle      []int
	idleSeen    bool
	endedAtIdle bool
}

func (x *sessExec) rec(f string, a ...any) { x.log = append(x.log, fmt.Sprintf(f, a...)) }

// wantList plays PeerManager and SessionManager.
type wantList struct {
	x   *sessExec
	sim *bssim.SessionInterestManager
	bpm *bsbpm.BlockPresenceManager
}

func (w *wantList) add(ks []cid.Cid) {
	for _, k := range ks {
		w.x.wants[idx(k)] = true
	}
}

func (w *wantList) del(ks []cid.Cid) {
	for _, k := range ks {
		delete(w.x.wants, idx(k))
	}
}

func (w *wantList) RegisterSession(peer.ID, bspm.Session) { vsched.Yield("pm.RegisterSession") }
func (w *wantList) UnregisterSession(uint64)              { vsched.Yield("pm.UnregisterSession") }
func (w *wantList) SendWants(p peer.ID, wb, wh []cid.Cid) bool {
	w.x.rec("SendWants-start blocks=%s haves=%s", keyStr(idxs(wb)), keyStr(idxs(wh)))
	vsched.Select(true, vsched.Snd((chan<- struct{})(w.x.inSend), struct{}{}))
	vsched.Yield("pm.SendWants") // the message to the peer takes a moment to be queued
	w.add(wb)
	w.add(wh)
	w.x.rec("SendWants-ret")
	return true
}

func (w *wantList) BroadcastWantHaves(ks []cid.Cid) {
	vsched.Yield("pm.BroadcastWantHaves")
	w.add(ks)
	if len(ks) > 0 {
		vsched.Select(true, vsched.Snd((chan<- struct{})(w.x.bcast), struct{}{}))
	}
	w.x.rec("BroadcastWantHaves %s", keyStr(idxs(ks)))
}

func (w *wantList) SendCancels(ks []cid.Cid) {
	vsched.Yield("pm.SendCancels")
	w.del(ks)
	w.x.rec("SendCancels %s", keyStr(idxs(ks)))
}

// as sessionmanager.SessionManager: cancel what no session is interested in any more
func (w *wantList) RemoveSession(id uint64) {
	vsched.Yield("sm.RemoveSession")
	ks := w.sim.RemoveSession(id)
	w.bpm.RemoveKeys(ks)
	w.x.rec("RemoveSession")
	w.SendCancels(ks)
}

func (w *wantList) CancelSessionWants(id uint64, ks []cid.Cid) {
	vsched.Yield("sm.CancelSessionWants")
	cks := w.sim.RemoveSessionWants(id, ks)
	w.bpm.RemoveKeys(cks)
	w.x.rec("CancelSessionWants %s", keyStr(idxs(ks)))
	w.SendCancels(cks)
}

type fakeSPM struct{ peers []peer.ID }

func (f *fakeSPM) PeersDiscovered() bool { return len(f.peers) > 0 }
func (f *fakeSPM) Shutdown()             { vsched.Yield("sprm.Shutdown") }
func (f *fakeSPM) AddPeer(p peer.ID) bool {
	for _, q := range f.peers {
		if q == p {
			return false
		}
	}
	f.peers = append(f.peers, p)
	return true
}

func (f *fakeSPM) RemovePeer(p peer.ID) bool {
	for i, q := range f.peers {
		if q == p {
			f.peers = append(f.peers[:i:i], f.peers[i+1:]...)
			return true
		}
	}
	return false
}
func (f *fakeSPM) Peers() []peer.ID          { return append([]peer.ID{}, f.peers...) }
func (f *fakeSPM) HasPeers() bool            { return len(f.peers) > 0 }
func (f *fakeSPM) ProtectConnection(peer.ID) {}

func (x *sessExec) Main() {
	sc := x.sc
	x.wants = map[int]bool{}
	x.inSend = vsched.Reg(make(chan struct{}, 1))
	x.bcast = vsched.Reg(make(chan struct{}, 1))
	notif := notifications.New(false)
	sim := bssim.New()
	bpm := bsbpm.New()
	wl := &wantList{x: x, sim: sim, bpm: bpm}
	ctx, cancel := context.WithCancel(context.Background())
	s := session.New(ctx, wl, 1, &fakeSPM{}, nil, sim, wl, bpm, notif, time.Hour, time.Hour, "", nil)
	reqCtx, reqCancel := context.WithCancel(ctx)
	ks := cidsOf(sc.keys)
	vsched.GoNamed("requester", true, func() {
		x.rec("GetBlocks-start %s", keyStr(sc.keys))
		_, err := s.GetBlocks(reqCtx, ks)
		x.rec("GetBlocks-ret %v", err)
		if sc.haves {
			// the peer answers the broadcast want-have (the session has recorded its interest by then)
			if vsched.Select(false, vsched.R((<-chan struct{})(x.bcast)), vsched.R(reqCtx.Done())) == 1 {
				x.rec("request over before the broadcast")
			}
			x.rec("ReceiveFrom-start HAVE %s", keyStr(sc.keys))
			s.ReceiveFrom(peer.ID("peer-A"), nil, ks, nil)
			x.rec("ReceiveFrom-ret")
		}
	})
	vsched.GoNamed("closer", true, func() {
		if sc.gate {
			if vsched.Select(false, vsched.R((<-chan struct{})(x.inSend)), vsched.R(ctx.Done())) == 1 {
				x.rec("the want sender never got in flight")
				return
			}
		}
		if sc.closeSes {
			x.rec("Close-start")
			s.Close()
			x.rec("Close-ret")
		} else {
			x.rec("cancel-request-start")
			reqCancel()
			x.rec("cancel-request-ret")
		}
		x.ended = true
	})
	// quiescence: judge the want-list here (AtIdle), then end whatever is still open and judge again at the end
	vsched.WaitIdle()
	x.rec("idle")
	x.atIdle, x.idleSeen, x.endedAtIdle = x.snapshot(), true, x.ended
	cancel()
}

func (x *sessExec) snapshot() []int {
	var out []int
	for k := range x.wants {
		out = append(out, k)
	}
	sort.Ints(out)
	return out
}

func (x *sessExec) AtEnd(*vsched.Result) { x.final = x.snapshot() }

func (x *sessExec) Outcome() string {
	n := 0
	for _, l := range x.log {
		if strings.HasPrefix(l, "SendWants-ret") {
			n++
		}
	}
	return fmt.Sprintf("idle=%s left=%s sendwants=%d", keyStr(x.atIdle), keyStr(x.final), n)
}

func (x *sessExec) Check(res *vsched.Result) *eng.Violation {
	left := x.final
	if x.idleSeen && x.endedAtIdle {
		left = append(append([]int{}, x.atIdle...), x.final...)
	}
	for _, k := range left {
		if has(x.sc.keys, k) {
			op := "request-cancel"
			if x.sc.closeSes {
				op = "Session.Close"
			}
			return eng.V("want-left-after-cancellation", op, fmt.Sprintf("at quiescence after the session was closed / the request was cancelled the node's want-list (wants sent minus cancels sent) still contains %s\n  %s", keyStr([]int{k}), strings.Join(x.log, "\n  ")), "session_closed", fmt.Sprint(x.sc.closeSes), "peer_has_block", fmt.Sprint(x.sc.haves))
		}
	}
	return nil
}

func sessScenarios(r *eng.Run) []*vexp.Scenario {
	scs := []*sessScript{
		{name: "sess_a_have_close", keys: []int{a}, haves: true, closeSes: true},
		{name: "sess_a_have_reqcancel", keys: []int{a}, haves: true, closeSes: false, deltaT: -1},
		{name: "sess_a_sending_close", keys: []int{a}, haves: true, closeSes: true, gate: true},
		{name: "sess_a_sending_reqcancel", keys: []int{a}, haves: true, closeSes: false, gate: true, deltaT: -1},
		{name: "sess_ab_close", keys: []int{a, b}, haves: false, closeSes: true, delta: -1, deltaT: -1},
	}
	var out []*vexp.Scenario
	for _, s := range scs {
		s := s
		delta := s.delta
		if r != nil && r.Thorough() {
			delta = s.deltaT
		}
		out = append(out, &vexp.Scenario{
			Name: s.name, BoundDelta: delta,
			Cfg: vsched.Config{MaxSteps: 20000, MaxIdleFires: 2, SelectCost: 1, SwitchCost: 1, Fair: true},
			New: func() vexp.Exec { return &sessExec{sc: s} },
		})
	}
	return out
}
