//go:build verif

// C37 (a): the bitswap delivery seam under all schedules. Real
// notifications.PubSub (over the rewritten cskr/pubsub) + real
// getter.AsyncGetBlocks / getter.SyncGetBlock, with a recording want manager
// (the want / cwants callbacks). See DESIGN.md §3 C37.
package main

import (
	"context"
	"encoding/json"
	"fmt"
	"os"
	"sort"
	"strings"

	"github.com/ipfs/boxo/bitswap/client/internal/getter"
	"github.com/ipfs/boxo/bitswap/client/internal/notifications"
	"github.com/ipfs/boxo/verifshim/eng"
	"github.com/ipfs/boxo/verifshim/vexp"
	"github.com/ipfs/boxo/verifshim/vsched"
	blocks "github.com/ipfs/go-block-format"
	cid "github.com/ipfs/go-cid"
)

var blks []blocks.Block // 0=a 1=b 2=c 3=A (same multihash as a under another codec: a different CID)

const names = "abcA"

func init() {
	for _, s := range []string{"a", "b", "c"} {
		blks = append(blks, blocks.NewBlock([]byte("verif-c37-block-"+s)))
	}
	alias, err := blocks.NewBlockWithCid(blks[0].RawData(), cid.NewCidV1(cid.DagProtobuf, blks[0].Cid().Hash()))
	if err != nil {
		panic(err)
	}
	blks = append(blks, alias)
	// 4..: further distinct blocks for requests with long key lists (longer than any small constant such as the
	// notifications bufferSize 16)
	for i := 0; i < 40; i++ {
		blks = append(blks, blocks.NewBlock([]byte(fmt.Sprintf("verif-c37-block-k%d", i))))
	}
}

// seq returns the block indices 4 .. 4+n-1.
func seq(from, n int) []int {
	out := make([]int, 0, n)
	for i := 0; i < n; i++ {
		out = append(out, 4+from+i)
	}
	return out
}

func idx(c cid.Cid) int {
	for i, b := range blks {
		if b.Cid().Equals(c) {
			return i
		}
	}
	return -1
}

func cidsOf(ix []int) []cid.Cid {
	out := make([]cid.Cid, 0, len(ix))
	for _, i := range ix {
		out = append(out, blks[i].Cid())
	}
	return out
}

func keyStr(ix []int) string {
	if len(ix) == 0 {
		return "-"
	}
	var sb strings.Builder
	for _, i := range ix {
		if i < 0 {
			sb.WriteByte('?')
		} else if i < len(names) {
			sb.WriteByte(names[i])
		} else {
			fmt.Fprintf(&sb, "<%d>", i-4)
		}
	}
	return sb.String()
}

// ---- scenario description ----

type reqSpec struct {
	keys []int
	sync bool // SyncGetBlock(keys[0]) over AsyncGetBlocks instead of AsyncGetBlocks + drain
}

const (
	noCancel   = -1
	sessCancel = -2
)

type script struct {
	name       string
	reqs       []reqSpec
	pubs       [][][]int // per publisher thread: its Publish calls in order, each a block list
	cancel     int       // racing canceller: noCancel | request index (its ctx) | sessCancel (the shared session ctx)
	cancelWait int       // the canceller first waits until this many blocks were delivered to request 0 (0 = races from the start)
	pubFirst   bool      // publisher threads are created (numbered) before the requesters: another base schedule
	shutdown   bool      // a thread calls PubSub.Shutdown at any point
	trace      bool      // notifications.New(traceBlock)
	degenerate bool      // empty key list / undefined cid (sequential)
	delta      int       // added to the tier's deviation bound in the quick tier
	deltaT     int       // ... in the thorough tier
	maxSteps   int
}

// ---- observation log ----

type ev struct {
	kind string // req-start req-ret want deliver closed cw sync-ret pub-start pub-ret cancel-start cancel-ret shut-start shut-ret idle
	who  int
	keys []int
	err  string
}

type exec struct {
	sc  *script
	log []ev
}

func (x *exec) rec(kind string, who int, keys []int, err error) {
	e := ev{kind: kind, who: who, keys: append([]int{}, keys...)}
	if err != nil {
		e.err = err.Error()
	}
	x.log = append(x.log, e)
}

func idxs(cs []cid.Cid) []int {
	out := make([]int, 0, len(cs))
	for _, c := range cs {
		out = append(out, idx(c))
	}
	return out
}

func (x *exec) Main() {
	sc := x.sc
	ps := notifications.New(sc.trace)
	sessctx, sesscancel := context.WithCancel(context.Background())
	var cancels []context.CancelFunc
	if sc.degenerate {
		vsched.GoNamed("degenerate", true, func() {
			x.rec("req-start", 0, nil, nil)
			out, err := getter.AsyncGetBlocks(context.Background(), sessctx, nil, ps,
				func(context.Context, []cid.Cid) { x.rec("want", 0, nil, nil) },
				func(ks []cid.Cid) { x.rec("cw", 0, idxs(ks), nil) })
			x.rec("req-ret", 0, nil, err)
			if err == nil {
				for {
					b, ok := vsched.Recv2(out)
					if !ok {
						break
					}
					x.rec("deliver", 0, []int{idx(b.Cid())}, nil)
				}
				x.rec("closed", 0, nil, nil)
			}
			x.rec("req-start", 1, nil, nil)
			b, err := getter.SyncGetBlock(context.Background(), cid.Undef, func(c context.Context, ks []cid.Cid) (<-chan blocks.Block, error) {
				x.rec("want", 1, idxs(ks), nil)
				return nil, fmt.Errorf("must not be called")
			})
			if b != nil {
				x.rec("sync-ret", 1, []int{idx(b.Cid())}, err)
			} else {
				x.rec("sync-ret", 1, nil, err)
			}
		})
		return
	}
	delivered := vsched.Reg(make(chan struct{}, 8))
	startPubs := func() {
		for p := range sc.pubs {
			p := p
			calls := sc.pubs[p]
			vsched.GoNamed(fmt.Sprintf("pub%d", p), true, func() {
				for _, call := range calls {
					bs := make([]blocks.Block, 0, len(call))
					for _, k := range call {
						bs = append(bs, blks[k])
					}
					x.rec("pub-start", p, call, nil)
					ps.Publish("", bs...)
					x.rec("pub-ret", p, call, nil)
				}
			})
		}
	}
	if sc.pubFirst {
		startPubs()
	}
	for i := range sc.reqs {
		i := i
		rq := sc.reqs[i]
		ctx, cancel := context.WithCancel(context.Background())
		cancels = append(cancels, cancel)
		want := func(_ context.Context, ks []cid.Cid) {
			x.rec("want", i, idxs(ks), nil)
			vsched.Yield("want")
		}
		cwants := func(ks []cid.Cid) {
			vsched.Yield("cwants")
			k := idxs(ks)
			sort.Ints(k)
			x.rec("cw", i, k, nil)
		}
		vsched.GoNamed(fmt.Sprintf("req%d", i), true, func() {
			x.rec("req-start", i, rq.keys, nil)
			if rq.sync {
				b, err := getter.SyncGetBlock(ctx, blks[rq.keys[0]].Cid(), func(c context.Context, ks []cid.Cid) (<-chan blocks.Block, error) {
					return getter.AsyncGetBlocks(c, sessctx, ks, ps, want, cwants)
				})
				if b != nil {
					x.rec("sync-ret", i, []int{idx(b.Cid())}, err)
				} else {
					x.rec("sync-ret", i, nil, err)
				}
				return
			}
			out, err := getter.AsyncGetBlocks(ctx, sessctx, cidsOf(rq.keys), ps, want, cwants)
			x.rec("req-ret", i, nil, err)
			if err != nil {
				return
			}
			for {
				b, ok := vsched.Recv2(out)
				if !ok {
					break
				}
				x.rec("deliver", i, []int{idx(b.Cid())}, nil)
				if i == 0 && sc.cancelWait > 0 {
					vsched.Send((chan<- struct{})(delivered), struct{}{})
				}
			}
			x.rec("closed", i, nil, nil)
		})
	}
	if !sc.pubFirst {
		startPubs()
	}
	if sc.cancel != noCancel {
		// with cancelWait the canceller may wait forever (fewer deliveries than awaited): then it is not a driver
		vsched.GoNamed("canceller", sc.cancelWait == 0, func() {
			for n := 0; n < sc.cancelWait; n++ {
				vsched.Recv((<-chan struct{})(delivered))
			}
			x.rec("cancel-start", sc.cancel, nil, nil)
			if sc.cancel == sessCancel {
				sesscancel()
			} else {
				cancels[sc.cancel]()
			}
			x.rec("cancel-ret", sc.cancel, nil, nil)
		})
	}
	if sc.shutdown {
		vsched.GoNamed("shutdown", true, func() {
			x.rec("shut-start", 0, nil, nil)
			ps.Shutdown()
			x.rec("shut-ret", 0, nil, nil)
		})
	}
	// cleanup: when everything else is quiescent, cancel every context so that open requests end
	vsched.WaitIdle()
	x.rec("idle", 0, nil, nil)
	for _, c := range cancels {
		c()
	}
	sesscancel()
}

func (x *exec) AtEnd(*vsched.Result) {}

// ---- per-request summary ----

type reqSum struct {
	spec     reqSpec
	R        map[int]bool
	start    int
	ret      int
	retErr   string
	wantAt   int
	wants    [][]int
	D        []int
	Dpos     []int
	closedAt int
	cws      [][]int
	cwPos    []int
	syncRet  int
	syncKeys []int
	syncErr  string
}

type pubCall struct {
	who        int
	keys       []int
	start, ret int
}

func (x *exec) summarize() ([]*reqSum, []pubCall, map[string]int) {
	n := len(x.sc.reqs)
	if x.sc.degenerate {
		n = 2
	}
	rs := make([]*reqSum, n)
	for i := range rs {
		rs[i] = &reqSum{R: map[int]bool{}, start: -1, ret: -1, wantAt: -1, closedAt: -1, syncRet: -1}
		if !x.sc.degenerate {
			rs[i].spec = x.sc.reqs[i]
			ks := rs[i].spec.keys
			if rs[i].spec.sync {
				ks = ks[:1]
			}
			for _, k := range ks {
				rs[i].R[k] = true
			}
		}
	}
	var pubs []pubCall
	pos := map[string]int{"idle": -1, "cancel-start": -1, "shut-start": -1, "shut-ret": -1}
	for i, e := range x.log {
		switch e.kind {
		case "req-start":
			rs[e.who].start = i
		case "req-ret":
			rs[e.who].ret = i
			rs[e.who].retErr = e.err
		case "want":
			if rs[e.who].wantAt < 0 {
				rs[e.who].wantAt = i
			}
			rs[e.who].wants = append(rs[e.who].wants, e.keys)
		case "deliver":
			rs[e.who].D = append(rs[e.who].D, e.keys[0])
			rs[e.who].Dpos = append(rs[e.who].Dpos, i)
		case "closed":
			rs[e.who].closedAt = i
		case "cw":
			rs[e.who].cws = append(rs[e.who].cws, e.keys)
			rs[e.who].cwPos = append(rs[e.who].cwPos, i)
		case "sync-ret":
			rs[e.who].syncRet = i
			rs[e.who].syncKeys = e.keys
			rs[e.who].syncErr = e.err
			if e.err == "" {
				rs[e.who].D = append(rs[e.who].D, e.keys...)
				rs[e.who].Dpos = append(rs[e.who].Dpos, i)
			}
		case "pub-start":
			pubs = append(pubs, pubCall{who: e.who, keys: e.keys, start: i, ret: -1})
		case "pub-ret":
			for j := len(pubs) - 1; j >= 0; j-- {
				if pubs[j].ret < 0 && pubs[j].who == e.who {
					pubs[j].ret = i
					break
				}
			}
		case "idle", "cancel-start", "shut-start", "shut-ret":
			pos[e.kind] = i
		}
	}
	return rs, pubs, pos
}

func (x *exec) Outcome() string {
	rs, _, _ := x.summarize()
	var sb strings.Builder
	for i, r := range rs {
		fmt.Fprintf(&sb, "r%d[", i)
		if r.spec.sync || (x.sc.degenerate && i == 1) {
			fmt.Fprintf(&sb, "sync=%s err=%s ", keyStr(r.syncKeys), r.syncErr)
		} else {
			fmt.Fprintf(&sb, "D=%s closed=%v ", keyStr(r.D), r.closedAt >= 0)
		}
		for _, c := range r.cws {
			fmt.Fprintf(&sb, "C=%s ", keyStr(c))
		}
		fmt.Fprintf(&sb, "W=%d] ", len(r.wants))
	}
	return sb.String()
}

func has(xs []int, k int) bool {
	for _, v := range xs {
		if v == k {
			return true
		}
	}
	return false
}

func (x *exec) Check(res *vsched.Result) *eng.Violation {
	sc := x.sc
	if d := os.Getenv("C37_DUMP"); d != "" { // debugging aid: histogram of outcomes per scenario
		if f, err := os.OpenFile(fmt.Sprintf("%s/%d.txt", d, os.Getpid()), os.O_APPEND|os.O_CREATE|os.O_WRONLY, 0o644); err == nil {
			fmt.Fprintf(f, "%s\t%s\n", sc.name, x.Outcome())
			f.Close()
		}
	}
	rs, pubs, pos := x.summarize()
	logStr := x.logString()
	if sc.degenerate {
		r0, r1 := rs[0], rs[1]
		if r0.retErr != "" || len(r0.D) != 0 || r0.closedAt < 0 || len(r0.cws) != 0 || len(r0.wants) != 0 {
			return eng.V("empty-request-misbehaves", "AsyncGetBlocks", "an empty key list must give a closed channel, no want, no cancel\n"+logStr)
		}
		if r1.syncErr == "" || len(r1.wants) != 0 {
			return eng.V("undefined-cid-accepted", "SyncGetBlock", "an undefined cid must be refused without issuing a want\n"+logStr)
		}
		return nil
	}
	idle := pos["idle"]
	for i, r := range rs {
		who := fmt.Sprintf("request %d keys=%s", i, keyStr(r.spec.keys))
		dup := "false"
		if len(r.spec.keys) != len(r.R) {
			dup = "true"
		}
		racing := (sc.cancel == i || sc.cancel == sessCancel) && pos["cancel-start"] >= 0
		feats := []string{"dup_keys", dup, "sync", fmt.Sprint(r.spec.sync), "racing_cancel", fmt.Sprint(racing), "shutdown", fmt.Sprint(sc.shutdown)}
		op := "AsyncGetBlocks"
		if r.spec.sync {
			op = "SyncGetBlock"
		}
		// (1) nothing unrequested, each distinct requested block at most once
		seen := map[int]bool{}
		for _, k := range r.D {
			if !r.R[k] {
				return eng.V("unrequested-block-delivered", op, fmt.Sprintf("%s received block %s which it did not request\n%s", who, keyStr([]int{k}), logStr), feats...)
			}
			if seen[k] {
				return eng.V("duplicate-delivery", op, fmt.Sprintf("%s received block %s twice\n%s", who, keyStr([]int{k}), logStr), feats...)
			}
			seen[k] = true
		}
		if r.spec.sync {
			if r.syncRet < 0 {
				return eng.V("request-never-ends", op, who+" never returned\n"+logStr, feats...)
			}
			if r.syncErr == "" && len(r.syncKeys) != 1 {
				return eng.V("nil-block-without-error", op, who+" returned neither block nor error\n"+logStr, feats...)
			}
		} else {
			if r.ret < 0 || r.retErr != "" {
				return eng.V("request-failed", op, who+" did not start: "+r.retErr+"\n"+logStr, feats...)
			}
			// (2) output channel closed after completion / cancellation (the requester thread drains until close; it is a
			// driver thread, so a channel that is never closed is a deadlock verdict; this is the belt to those braces)
			if r.closedAt < 0 {
				return eng.V("output-never-closed", op, who+": output channel not closed at quiescence\n"+logStr, feats...)
			}
		}
		// (3) the want was registered exactly once, covering the requested keys, before anything was delivered
		if r.wantAt >= 0 {
			if len(r.wants) != 1 {
				return eng.V("want-registered-twice", op, who+"\n"+logStr, feats...)
			}
			for k := range r.R {
				if !has(r.wants[0], k) {
					return eng.V("want-incomplete", op, fmt.Sprintf("%s: want callback misses %s\n%s", who, keyStr([]int{k}), logStr), feats...)
				}
			}
			if len(r.Dpos) > 0 && r.Dpos[0] < r.wantAt {
				return eng.V("delivery-before-want", op, who+"\n"+logStr, feats...)
			}
		} else if r.spec.sync && r.syncErr != "" {
			// SyncGetBlock may fail before subscribing only if nothing was started; then nothing to clean up
			if len(r.cws) != 0 {
				return eng.V("cancel-without-want", op, who+"\n"+logStr, feats...)
			}
			continue
		} else {
			return eng.V("want-not-registered", op, who+": the want callback was never called\n"+logStr, feats...)
		}
		// (4) want-list cleanup: the cancel-wants callback runs exactly once, and every requested key is accounted for:
		// it was delivered, or it is handed to cancel-wants. The only tolerated gap is a block that was published to this
		// subscription (its receipt already cleans the want-list on the publish path) and then dropped because the
		// request's context was cancelled concurrently.
		if len(r.cws) == 0 {
			return eng.V("cancel-wants-not-called", op, who+": at quiescence the cancel-wants callback has not run; the requested keys stay in the want-list\n"+logStr, feats...)
		}
		if len(r.cws) > 1 {
			return eng.V("cancel-wants-called-twice", op, who+"\n"+logStr, feats...)
		}
		C := r.cws[0]
		for j, k := range C {
			if !r.R[k] {
				return eng.V("cancel-wants-foreign-key", op, fmt.Sprintf("%s: cancel-wants got %s which was not requested\n%s", who, keyStr([]int{k}), logStr), feats...)
			}
			if j > 0 && C[j-1] == k {
				return eng.V("cancel-wants-duplicate-key", op, who+"\n"+logStr, feats...)
			}
			if has(r.D, k) {
				return eng.V("cancel-wants-delivered-key", op, fmt.Sprintf("%s: cancel-wants got %s which had been delivered\n%s", who, keyStr([]int{k}), logStr), feats...)
			}
		}
		for k := range r.R {
			if has(C, k) || has(r.D, k) {
				continue
			}
			published := false
			for _, p := range pubs {
				if has(p.keys, k) && (p.ret < 0 || p.ret > r.start) {
					published = true
				}
			}
			if !(racing && published) {
				return eng.V("want-leaked", "cancel-wants", fmt.Sprintf("%s: key %s was neither delivered nor handed to cancel-wants (published to the subscription: %v)\n%s", who, keyStr([]int{k}), published, logStr), feats...)
			}
		}
		// (5) delivery: without cancellation race and without Shutdown, a block published after the subscription was
		// established has been delivered, and a fully served request has been closed, by the time everything is quiescent
		// (i.e. before the clean-up cancellation).
		if !racing && !sc.shutdown && idle >= 0 {
			for k := range r.R {
				owed := false
				for _, p := range pubs {
					if has(p.keys, k) && p.start > r.wantAt {
						owed = true
					}
				}
				if !owed {
					continue
				}
				got := false
				for j, d := range r.D {
					if d == k && r.Dpos[j] < idle {
						got = true
					}
				}
				if !got {
					return eng.V("published-block-not-delivered", op, fmt.Sprintf("%s: block %s was published after the request had registered its want (hence subscribed), the request was not cancelled, yet at quiescence it has not been delivered\n%s", who, keyStr([]int{k}), logStr), feats...)
				}
			}
			all := true
			for k := range r.R {
				if !has(r.D, k) {
					all = false
				}
			}
			if all {
				end := r.closedAt
				if r.spec.sync {
					end = r.syncRet
				}
				if end > idle {
					return eng.V("completed-request-not-closed", op, who+": all blocks delivered but the request only ended when its context was cancelled\n"+logStr, feats...)
				}
				if r.cwPos[0] > idle {
					return eng.V("completed-request-not-cleaned", op, who+": all blocks delivered but cancel-wants only ran when the context was cancelled\n"+logStr, feats...)
				}
			}
			if r.spec.sync && r.syncRet < idle && r.syncErr != "" {
				return eng.V("sync-get-failed", op, who+": failed without cancellation: "+r.syncErr+"\n"+logStr, feats...)
			}
		}
	}
	return nil
}

func (x *exec) logString() string {
	var sb strings.Builder
	for i, e := range x.log {
		fmt.Fprintf(&sb, "  %2d %-12s who=%d keys=%s %s\n", i, e.kind, e.who, keyStr(e.keys), e.err)
	}
	return sb.String()
}

const (
	a = 0
	b = 1
	c = 2
	A = 3 // same multihash as a, other codec
)

func scripts() []*script {
	one := func(ks ...int) []reqSpec { return []reqSpec{{keys: ks}} }
	syn := func(k int) []reqSpec { return []reqSpec{{keys: []int{k}, sync: true}} }
	type P = [][][]int
	return []*script{
		{name: "degenerate", degenerate: true},
		// one request, no cancellation race: delivery, at-most-once, nothing unrequested, closure, clean-up
		{name: "a_pubA", reqs: one(a), pubs: P{{{a}}}, cancel: noCancel},
		{name: "pubA_a", reqs: one(a), pubs: P{{{a}}}, cancel: noCancel, pubFirst: true},
		{name: "aa_pubA_pubA", reqs: one(a, a), pubs: P{{{a}}, {{a}}}, cancel: noCancel},
		{name: "ab_pubA_pubAB", reqs: one(a, b), pubs: P{{{a}}, {{a, b}}}, cancel: noCancel},
		{name: "ab_pubCB_pubA", reqs: one(a, b), pubs: P{{{c}, {b}}, {{a}}}, cancel: noCancel},
		{name: "a_pubAlias_A", reqs: one(a), pubs: P{{{A}, {a}}}, cancel: noCancel},
		{name: "ab_pubA_pubAB_trace", reqs: one(a, b), pubs: P{{{a}}, {{a, b}}}, cancel: noCancel, trace: true},
		// cancellation at any point (request context, session context)
		{name: "ab_pubAB_cancel", reqs: one(a, b), pubs: P{{{a, b}}}, cancel: 0},
		{name: "ab_pubA_pubB_cancel1", reqs: one(a, b), pubs: P{{{a}}, {{b}}}, cancel: 0, cancelWait: 1},
		{name: "a_pubA_sesscancel", reqs: one(a), pubs: P{{{a}}}, cancel: sessCancel},
		// Shutdown of the PubSub at any point
		{name: "ab_pubAB_shutdown", reqs: one(a, b), pubs: P{{{a, b}}}, cancel: noCancel, shutdown: true},
		// SyncGetBlock
		{name: "sync_a_pubC_A", reqs: syn(a), pubs: P{{{c}, {a}}}, cancel: noCancel},
		{name: "sync_a_pubA_cancel", reqs: syn(a), pubs: P{{{a}}}, cancel: 0},
		{name: "sync_a_pubA_shutdown", reqs: syn(a), pubs: P{{{a}}}, cancel: noCancel, shutdown: true},
		// two overlapping requests sharing a key
		// (seven and more threads: thorough keeps them at the quick bound 2; the largest gets 1 / 2)
		{name: "two_a_ab_pubAB", reqs: []reqSpec{{keys: []int{a}}, {keys: []int{a, b}}}, pubs: P{{{a, b}}}, cancel: noCancel, deltaT: -1},
		{name: "two_a_a_pubA_cancel0", reqs: []reqSpec{{keys: []int{a}}, {keys: []int{a}}}, pubs: P{{{a}}}, cancel: 0, deltaT: -1},
		{name: "two_ab_a_pubA_pubB", reqs: []reqSpec{{keys: []int{a, b}}, {keys: []int{a}}}, pubs: P{{{a}}, {{b}}}, cancel: noCancel, delta: -1, deltaT: -1},
		// key lists longer than any small constant (18 and 33 distinct keys; buffers sized by a capped len(keys) would
		// bind here), everything else minimal: one requester, one publisher, a racing canceller
		{name: "k18_pubAll_cancel", reqs: one(seq(0, 18)...), pubs: P{{seq(0, 18)}}, cancel: 0, delta: 0, deltaT: -1, maxSteps: 20000},
		{name: "k33_pub17_16_cancel", reqs: one(seq(0, 33)...), pubs: P{{seq(0, 17), seq(17, 16)}}, cancel: 0, delta: -1, deltaT: -1, maxSteps: 40000},
		{name: "k18_pubAll", reqs: one(seq(0, 18)...), pubs: P{{seq(0, 18)}}, cancel: noCancel, delta: -1, deltaT: -1, maxSteps: 20000},
		// the two smallest scenarios once more, one deviation deeper in the thorough tier (bound 4; quick: base schedule only)
		{name: "a_pubA_deep", reqs: one(a), pubs: P{{{a}}}, cancel: noCancel, delta: -2, deltaT: 1},
		{name: "pubA_a_deep", reqs: one(a), pubs: P{{{a}}}, cancel: noCancel, pubFirst: true, delta: -2, deltaT: 1},
		// last (a budget hit under load costs only these): two of the two-request scenarios at the full thorough bound 3
		{name: "two_a_ab_pubAB_deep", reqs: []reqSpec{{keys: []int{a}}, {keys: []int{a, b}}}, pubs: P{{{a, b}}}, cancel: noCancel, delta: -2},
		{name: "two_a_a_pubA_cancel0_deep", reqs: []reqSpec{{keys: []int{a}}, {keys: []int{a}}}, pubs: P{{{a}}}, cancel: 0, delta: -2},
	}
}

func scenarios(r *eng.Run) []*vexp.Scenario {
	var out []*vexp.Scenario
	for _, s := range scripts() {
		s := s
		ms := s.maxSteps
		if ms == 0 {
			ms = 2000
		}
		delta := s.delta
		if r != nil && r.Thorough() {
			delta = s.deltaT
		}
		sc := &vexp.Scenario{
			Name: s.name, BoundDelta: delta,
			Cfg: vsched.Config{MaxSteps: ms, MaxIdleFires: 4, SelectCost: 1, SwitchCost: 1, Fair: true},
			New: func() vexp.Exec { return &exec{sc: s} },
		}
		out = append(out, sc)
	}
	return append(out, sessScenarios(r)...)
}

func main() {
	eng.WorkerMain = func() { vexp.Register(scenarios(nil)...); eng.WorkerMain() }
	eng.Main("C37", "model_checking", func(r *eng.Run) {
		r.Rule("every schedule (thread interleaving, select-case choice) of each scenario with at most B deviations from the base schedule (continue the running thread, else the lowest-numbered enabled thread; first ready select case; fair defaults in busy-wait loops); B = 2 quick / 3 thorough, two-request scenarios 2 (the largest 1 quick / 2 thorough), the two smallest scenarios additionally with B = 4 and two of the two-request scenarios additionally with B = 3 in thorough; a case is non-trivial when it has >= 1 deviation; each execution is a distinct choice sequence run on the rewritten real notifications.PubSub + cskr/pubsub + getter")
		r.Assume("vsched models channels, select and sync faithfully; context cancellation is native (Done channels are polled)")
		r.Assume("the want manager behind the want / cancel-wants callbacks is a recorder: receipt of a block on the publish path is taken to clean the want-list for that key, as client.receiveBlocksFrom -> SessionManager.ReceiveFrom does")
		vexp.Explore(r, scenarios(r), vexp.Options{Bound: eng.Pick(r, 2, 3)})
	}, func(r *eng.Run, raw json.RawMessage) { vexp.Replay(r, scenarios(r), raw) })
}
