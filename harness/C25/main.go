//go:build verif

// C25: IPNS validation is unforgeable and self-consistent.
//
// Base records are produced by the library (4 key types x v1-compat on/off x
// embedded key on/off x {normal, zero seq/ttl, expired}). Every entry of a
// declared mutation catalogue is applied to every base record and the result
// is given to Validate, ValidateWithName and Validator.Validate (with and
// without KeyBook) under the record's own name and under other keys' names.
//
// Oracle (necessary conditions only - rejecting is never a violation): a
// mutant may be accepted for name N only if
//
//	(size)   its bytes are <= MaxRecordSize,
//	(sig)    SignatureV2 verifies "ipns-signature:"+Data under N's key
//	         (libp2p Verify is the trusted base),
//	(key)    an embedded PubKey, if any, is N's key,
//	(expiry) the signed EOL is in the future,
//	(legacy) every legacy protobuf field that is present equals the value in
//	         the signed Data,
//
// and every accepted record's accessors must return the values that were
// signed (looked up by Data bytes in the catalogue of everything the harness
// ever signed).
package main

import (
	"bytes"
	"crypto/elliptic"
	"encoding/asn1"
	"encoding/json"
	"errors"
	"fmt"
	"math"
	"math/big"
	"sort"
	"strconv"
	"strings"
	"sync"
	"time"

	"github.com/ipfs/boxo/ipns"
	ipns_pb "github.com/ipfs/boxo/ipns/pb"
	"github.com/ipfs/boxo/path"
	"github.com/ipfs/boxo/verifshim/eng"
	"github.com/ipfs/go-cid"
	"github.com/ipld/go-ipld-prime/codec"
	"github.com/ipld/go-ipld-prime/codec/dagcbor"
	"github.com/ipld/go-ipld-prime/datamodel"
	"github.com/ipld/go-ipld-prime/fluent/qp"
	basicnode "github.com/ipld/go-ipld-prime/node/basic"
	ic "github.com/libp2p/go-libp2p/core/crypto"
	"github.com/libp2p/go-libp2p/core/peer"
	mh "github.com/multiformats/go-multihash"
	"google.golang.org/protobuf/encoding/protowire"
	"google.golang.org/protobuf/proto"
)

const sigPrefix = "ipns-signature:"

var now = time.Now()

// ---- what was signed ----

type signedVals struct {
	key       string // key type that signed it
	value     string
	validity  string
	vtype     int64
	seq       uint64
	ttl       uint64
	eol       time.Time
	ambiguous string // non-empty: the CBOR document does not have one meaning (e.g. duplicate key)
}

var (
	catalog   = map[string]*signedVals{} // by key type and Data bytes
	catalogMu sync.Mutex
)

// The signed document does not depend on the key, so the catalogue is keyed by
// (key type, Data).
func addCatalog(data []byte, sv *signedVals) {
	catalogMu.Lock()
	catalog[sv.key+"\x00"+string(data)] = sv
	catalogMu.Unlock()
}

// ---- base records ----

type base struct {
	name    string
	k       *keyInfo
	v1      bool
	embed   bool
	kind    string // normal | zero | expired
	raw     []byte
	pb      *ipns_pb.IpnsRecord
	sv      *signedVals
	other   *base // same key and options, different inputs (not mutated itself)
	foreign *base // key of another type, same options
}

var (
	keys    = map[string]*keyInfo{}
	bases   []*base
	baseMap = map[string]*base{}
)

func mkCid(s string) cid.Cid {
	return cid.NewCidV1(cid.DagProtobuf, must(mh.Sum([]byte(s), mh.SHA2_256, -1)))
}

func libBase(k *keyInfo, v1, embed bool, kind string, alt bool) *base {
	var val path.Path = path.FromCid(mkCid("value-A"))
	seq, ttl := uint64(5), time.Hour
	eol := time.Date(2200, 1, 2, 3, 4, 5, 600, time.UTC)
	switch kind {
	case "zero":
		seq, ttl = 0, 0
	case "expired":
		eol = time.Date(2001, 1, 2, 3, 4, 5, 0, time.UTC)
	}
	if alt {
		val = must(path.NewPath("/ipfs/" + mkCid("value-B").String() + "/sub"))
		seq, ttl = seq+1, ttl+time.Hour
		eol = eol.Add(365 * 24 * time.Hour)
	}
	rec := must(ipns.NewRecord(k.sk, val, seq, eol, ttl, ipns.WithV1Compatibility(v1), ipns.WithPublicKey(embed)))
	raw := must(ipns.MarshalRecord(rec))
	b := &base{k: k, v1: v1, embed: embed, kind: kind, raw: raw, pb: &ipns_pb.IpnsRecord{}}
	if err := proto.Unmarshal(raw, b.pb); err != nil {
		panic(err)
	}
	b.sv = &signedVals{key: k.typ, value: val.String(), validity: eol.UTC().Format(time.RFC3339Nano), vtype: 0, seq: seq, ttl: uint64(ttl), eol: eol}
	addCatalog(b.pb.Data, b.sv)
	b.name = fmt.Sprintf("%s.%s.%s.%s", k.typ, map[bool]string{true: "v1v2", false: "v2only"}[v1], map[bool]string{true: "pk", false: "nopk"}[embed], kind)
	return b
}

// cborBase hand-builds a v2-only record whose signed CBOR document is unusual.
func cborBase(k *keyInfo, variant string) *base {
	sv := &signedVals{key: k.typ, value: path.FromCid(mkCid("value-C")).String(), seq: 7, ttl: 9, eol: time.Date(2200, 5, 5, 5, 5, 5, 0, time.UTC)}
	sv.validity = sv.eol.Format(time.RFC3339Nano)
	ent := func(ma datamodel.MapAssembler, key string) {
		switch key {
		case "TTL":
			qp.MapEntry(ma, key, qp.Int(int64(sv.ttl)))
		case "Value":
			qp.MapEntry(ma, key, qp.Bytes([]byte(sv.value)))
		case "Sequence":
			qp.MapEntry(ma, key, qp.Int(int64(sv.seq)))
		case "Validity":
			qp.MapEntry(ma, key, qp.Bytes([]byte(sv.validity)))
		case "ValidityType":
			qp.MapEntry(ma, key, qp.Int(0))
		}
	}
	canon := []string{"TTL", "Value", "Sequence", "Validity", "ValidityType"}
	var data []byte
	switch variant {
	case "cbor-reordered":
		// the same map with its keys in reverse (non-canonical) order, written by hand
		n := must(qp.BuildMap(basicnode.Prototype.Map, 5, func(ma datamodel.MapAssembler) {
			for i := len(canon) - 1; i >= 0; i-- {
				ent(ma, canon[i])
			}
		}))
		var buf bytes.Buffer
		if err := (dagcbor.EncodeOptions{AllowLinks: true, MapSortMode: codec.MapSortMode_None}).Encode(n, &buf); err != nil {
			panic(err)
		}
		data = buf.Bytes()
	case "cbor-duplicate-sequence":
		// canonical document, then patch the map header to 6 entries and append a second "Sequence"
		n := must(qp.BuildMap(basicnode.Prototype.Map, 5, func(ma datamodel.MapAssembler) {
			for _, k := range canon {
				ent(ma, k)
			}
		}))
		var buf bytes.Buffer
		if err := dagcbor.Encode(n, &buf); err != nil {
			panic(err)
		}
		data = buf.Bytes()
		if data[0] != 0xa5 {
			panic("unexpected cbor map header")
		}
		data[0] = 0xa6
		data = append(data, 0x68)
		data = append(data, "Sequence"...)
		data = append(data, 0x18, 99) // uint 99
		sv.ambiguous = "duplicate map key Sequence (7 and 99)"
	}
	sig := must(k.sk.Sign(append([]byte(sigPrefix), data...)))
	pb := &ipns_pb.IpnsRecord{Data: data, SignatureV2: sig, PubKey: must(ic.MarshalPublicKey(k.pk))}
	b := &base{k: k, v1: false, embed: true, kind: variant, pb: pb, raw: must(proto.Marshal(pb)), sv: sv}
	b.name = k.typ + "." + variant
	addCatalog(data, sv)
	return b
}

func initBases() {
	for _, t := range keyTypes {
		keys[t] = genKey(t, "C25")
	}
	kinds := []string{"normal", "zero", "expired"}
	for _, t := range keyTypes {
		for _, v1 := range []bool{true, false} {
			for _, em := range []bool{true, false} {
				for _, kind := range kinds {
					b := libBase(keys[t], v1, em, kind, false)
					b.other = libBase(keys[t], v1, em, kind, true)
					bases = append(bases, b)
				}
			}
		}
	}
	for _, t := range keyTypes {
		bases = append(bases, cborBase(keys[t], "cbor-reordered"), cborBase(keys[t], "cbor-duplicate-sequence"))
	}
	for _, b := range bases {
		baseMap[b.name] = b
	}
	for _, b := range bases {
		ft := keyTypes[(indexOf(keyTypes, b.k.typ)+1)%len(keyTypes)]
		fn := strings.Replace(b.name, b.k.typ+".", ft+".", 1)
		b.foreign = baseMap[fn]
		if b.other == nil {
			b.other = baseMap[b.k.typ+".v2only.pk.normal"]
		}
	}
}

func indexOf(xs []string, s string) int {
	for i, x := range xs {
		if x == s {
			return i
		}
	}
	return -1
}

// ---- mutation catalogue ----

var fieldNum = map[string]protowire.Number{"Value": 1, "SignatureV1": 2, "ValidityType": 3, "Validity": 4, "Sequence": 5, "Ttl": 6, "PubKey": 7, "SignatureV2": 8, "Data": 9}
var fieldOrder = []string{"Value", "SignatureV1", "ValidityType", "Validity", "Sequence", "Ttl", "PubKey", "SignatureV2", "Data"}
var intField = map[string]bool{"ValidityType": true, "Sequence": true, "Ttl": true}

var variants = map[string][]string{
	"Value":        {"clear", "empty", "other", "garbage", "signed"},
	"SignatureV1":  {"clear", "empty", "other", "random", "sigv2"},
	"ValidityType": {"clear", "zero", "one"},
	"Validity":     {"clear", "empty", "other", "respelled", "garbage", "signed", "future"},
	"Sequence":     {"clear", "zero", "plus1", "max", "other", "signed"},
	"Ttl":          {"clear", "zero", "plus1", "max", "other", "signed"},
	"PubKey":       {"clear", "empty", "own", "foreign", "garbage", "truncated"},
	"SignatureV2":  {"clear", "empty", "other", "foreign", "sigv1", "random", "noprefix", "foreignsigned", "truncated", "trailing", "negs"},
	"Data":         {"clear", "empty", "other", "foreign", "truncated", "trailing"},
}

type ecdsaSig struct{ R, S *big.Int }

var secp256k1N, _ = new(big.Int).SetString("FFFFFFFFFFFFFFFFFFFFFFFFFFFFFFFEBAAEDCE6AF48A03BBFD25E8CD0364141", 16)

func pseudo(n int, seed string) []byte {
	b := make([]byte, n)
	(&detReader{seed: seed}).Read(b)
	return b
}

// variantValue returns the new content of field f of base b for a variant.
// present=false clears the field.
func variantValue(b *base, f, v string) (present bool, bs []byte, u uint64) {
	if v == "clear" {
		return false, nil, 0
	}
	if v == "empty" {
		return true, []byte{}, 0
	}
	sv, o := b.sv, b.other
	switch f {
	case "Value":
		switch v {
		case "other":
			return true, []byte(o.sv.value), 0
		case "garbage":
			return true, []byte("/ipfs/not-a-cid"), 0
		case "signed":
			return true, []byte(sv.value), 0
		}
	case "SignatureV1":
		switch v {
		case "other":
			if len(o.pb.SignatureV1) > 0 {
				return true, o.pb.SignatureV1, 0
			}
			return true, pseudo(64, "othersigv1"), 0
		case "random":
			return true, pseudo(64, "sigv1"), 0
		case "sigv2":
			return true, b.pb.SignatureV2, 0
		}
	case "ValidityType":
		switch v {
		case "zero":
			return true, nil, 0
		case "one":
			return true, nil, 1
		}
	case "Validity":
		switch v {
		case "other":
			return true, []byte(o.sv.validity), 0
		case "respelled":
			return true, []byte(strings.Replace(sv.validity, "Z", "+00:00", 1)), 0
		case "garbage":
			return true, []byte("tomorrow"), 0
		case "signed":
			return true, []byte(sv.validity), 0
		case "future":
			return true, []byte("2300-01-01T00:00:00Z"), 0
		}
	case "Sequence", "Ttl":
		cur, oth := sv.seq, o.sv.seq
		if f == "Ttl" {
			cur, oth = sv.ttl, o.sv.ttl
		}
		switch v {
		case "zero":
			return true, nil, 0
		case "plus1":
			return true, nil, cur + 1
		case "max":
			return true, nil, math.MaxUint64
		case "other":
			return true, nil, oth
		case "signed":
			return true, nil, cur
		}
	case "PubKey":
		switch v {
		case "own":
			return true, must(ic.MarshalPublicKey(b.k.pk)), 0
		case "foreign":
			return true, must(ic.MarshalPublicKey(b.foreign.k.pk)), 0
		case "garbage":
			return true, pseudo(40, "pubkey"), 0
		case "truncated":
			pk := must(ic.MarshalPublicKey(b.k.pk))
			return true, pk[:len(pk)-1], 0
		}
	case "SignatureV2":
		sig := b.pb.SignatureV2
		payload := append([]byte(sigPrefix), b.pb.Data...)
		switch v {
		case "other":
			return true, o.pb.SignatureV2, 0
		case "foreign":
			return true, b.foreign.pb.SignatureV2, 0
		case "sigv1":
			if len(b.pb.SignatureV1) > 0 {
				return true, b.pb.SignatureV1, 0
			}
			// the v1 signature the library would have made: value || validity || "0"
			return true, detSign(b, append(append([]byte(sv.value), sv.validity...), '0')), 0
		case "random":
			return true, pseudo(len(sig), "sigv2"), 0
		case "noprefix":
			return true, detSign(b, b.pb.Data), 0
		case "foreignsigned":
			return true, must(b.foreign.k.sk.Sign(payload)), 0
		case "truncated":
			return true, sig[:len(sig)-1], 0
		case "trailing":
			return true, append(append([]byte{}, sig...), 0), 0
		case "negs":
			// (r, n-s): the classic ECDSA malleability; for other schemes flip the last bit
			var n *big.Int
			switch b.k.typ {
			case "ecdsa":
				n = elliptic.P256().Params().N
			case "secp256k1":
				n = secp256k1N
			}
			var es ecdsaSig
			if n != nil {
				if _, err := asn1.Unmarshal(sig, &es); err == nil {
					es.S = new(big.Int).Sub(n, es.S)
					return true, must(asn1.Marshal(es)), 0
				}
			}
			out := append([]byte{}, sig...)
			out[len(out)-1] ^= 1
			return true, out, 0
		}
	case "Data":
		d := b.pb.Data
		switch v {
		case "other":
			return true, o.pb.Data, 0
		case "foreign":
			return true, b.foreign.pb.Data, 0
		case "truncated":
			return true, d[:len(d)-1], 0
		case "trailing":
			return true, append(append([]byte{}, d...), 0), 0
		}
	}
	panic("unknown variant " + f + "=" + v)
}

// detSign signs with the base's key. (ECDSA signatures are randomised; nothing
// depends on their bytes.)
func detSign(b *base, msg []byte) []byte { return must(b.k.sk.Sign(msg)) }

func setField(m *ipns_pb.IpnsRecord, f string, present bool, bs []byte, u uint64) {
	if !present {
		bs = nil
	} else if bs == nil {
		bs = []byte{}
	}
	switch f {
	case "Value":
		m.Value = bs
	case "SignatureV1":
		m.SignatureV1 = bs
	case "Validity":
		m.Validity = bs
	case "PubKey":
		m.PubKey = bs
	case "SignatureV2":
		m.SignatureV2 = bs
	case "Data":
		m.Data = bs
	case "ValidityType":
		m.ValidityType = nil
		if present {
			t := ipns_pb.IpnsRecord_ValidityType(u)
			m.ValidityType = &t
		}
	case "Sequence":
		m.Sequence = nil
		if present {
			m.Sequence = &u
		}
	case "Ttl":
		m.Ttl = nil
		if present {
			m.Ttl = &u
		}
	}
}

func encodeField(f string, bs []byte, u uint64) []byte {
	var out []byte
	if intField[f] {
		out = protowire.AppendTag(out, fieldNum[f], protowire.VarintType)
		return protowire.AppendVarint(out, u)
	}
	out = protowire.AppendTag(out, fieldNum[f], protowire.BytesType)
	return protowire.AppendBytes(out, bs)
}

// applyMut builds the mutant bytes of base b for a mutation spec:
//
//	""                         identity
//	"f:Field=variant[;f:...]"  protobuf-level field changes, re-marshalled
//	"flip:off:mask"            xor one byte of the serialized record
//	"append:Field=variant"     duplicate field appended to the serialization (last one wins)
//	"prepend:Field=variant"    duplicate field in front (original wins)
//	"unknown:num:type"         unknown field appended
//	"pad:N"                    unknown bytes field appended so that the record is N bytes long
//	"reverse"                  fields serialized in reverse order
func applyMut(b *base, spec string) []byte {
	switch {
	case spec == "":
		return b.raw
	case strings.HasPrefix(spec, "f:"):
		m := proto.Clone(b.pb).(*ipns_pb.IpnsRecord)
		for _, one := range strings.Split(spec, ";") {
			fv := strings.SplitN(strings.TrimPrefix(one, "f:"), "=", 2)
			p, bs, u := variantValue(b, fv[0], fv[1])
			setField(m, fv[0], p, bs, u)
		}
		return must(proto.Marshal(m))
	case strings.HasPrefix(spec, "flip:"):
		p := strings.Split(spec, ":")
		off, mask := must(strconv.Atoi(p[1])), must(strconv.Atoi(p[2]))
		out := append([]byte{}, b.raw...)
		out[off] ^= byte(mask)
		return out
	case strings.HasPrefix(spec, "append:"), strings.HasPrefix(spec, "prepend:"):
		i := strings.IndexByte(spec, ':')
		fv := strings.SplitN(spec[i+1:], "=", 2)
		_, bs, u := variantValue(b, fv[0], fv[1])
		enc := encodeField(fv[0], bs, u)
		if spec[0] == 'a' {
			return append(append([]byte{}, b.raw...), enc...)
		}
		return append(enc, b.raw...)
	case strings.HasPrefix(spec, "unknown:"):
		p := strings.Split(spec, ":")
		num := protowire.Number(must(strconv.Atoi(p[1])))
		out := append([]byte{}, b.raw...)
		switch p[2] {
		case "varint":
			out = protowire.AppendVarint(protowire.AppendTag(out, num, protowire.VarintType), 300)
		case "fixed32":
			out = protowire.AppendFixed32(protowire.AppendTag(out, num, protowire.Fixed32Type), 7)
		case "fixed64":
			out = protowire.AppendFixed64(protowire.AppendTag(out, num, protowire.Fixed64Type), 7)
		default:
			out = protowire.AppendBytes(protowire.AppendTag(out, num, protowire.BytesType), []byte("xyz"))
		}
		return out
	case strings.HasPrefix(spec, "pad:"):
		target := must(strconv.Atoi(spec[4:]))
		for n := target - len(b.raw); n >= 0; n-- {
			out := protowire.AppendBytes(protowire.AppendTag(append([]byte{}, b.raw...), 15, protowire.BytesType), make([]byte, n))
			if len(out) == target {
				return out
			}
			if len(out) < target {
				break
			}
		}
		panic("cannot pad to " + spec)
	case spec == "reverse":
		var out []byte
		for i := len(fieldOrder) - 1; i >= 0; i-- {
			f := fieldOrder[i]
			m := &ipns_pb.IpnsRecord{}
			switch f {
			case "Value":
				m.Value = b.pb.Value
			case "SignatureV1":
				m.SignatureV1 = b.pb.SignatureV1
			case "ValidityType":
				m.ValidityType = b.pb.ValidityType
			case "Validity":
				m.Validity = b.pb.Validity
			case "Sequence":
				m.Sequence = b.pb.Sequence
			case "Ttl":
				m.Ttl = b.pb.Ttl
			case "PubKey":
				m.PubKey = b.pb.PubKey
			case "SignatureV2":
				m.SignatureV2 = b.pb.SignatureV2
			case "Data":
				m.Data = b.pb.Data
			}
			out = append(out, must(proto.Marshal(m))...)
		}
		return out
	}
	panic("unknown mutation " + spec)
}

func singles() []string {
	var out []string
	for _, f := range fieldOrder {
		for _, v := range variants[f] {
			out = append(out, "f:"+f+"="+v)
		}
	}
	return out
}

func fieldOf(spec string) string {
	s := spec[strings.IndexByte(spec, ':')+1:]
	return s[:strings.IndexByte(s, '=')]
}

func mutationsFor(b *base, thorough bool) []string {
	out := []string{""}
	sg := singles()
	out = append(out, sg...)
	// all pairs of single-field changes on two different fields
	if b.kind == "normal" || b.kind == "zero" || thorough {
		for i, a := range sg {
			for _, c := range sg[i+1:] {
				if fieldOf(a) != fieldOf(c) {
					out = append(out, a+";"+c)
				}
			}
		}
	}
	// byte flips of the serialized record
	masks := []int{0x01, 0x80}
	if thorough {
		masks = []int{1, 2, 4, 8, 16, 32, 64, 128}
	}
	if b.kind != "expired" || thorough {
		for off := range b.raw {
			for _, m := range masks {
				out = append(out, fmt.Sprintf("flip:%d:%d", off, m))
			}
		}
	}
	// re-encodings
	for _, s := range sg {
		if !strings.HasSuffix(s, "=clear") {
			out = append(out, "append:"+s[2:], "prepend:"+s[2:])
		}
	}
	out = append(out, "unknown:10:varint", "unknown:15:bytes", "unknown:1000:bytes", "unknown:11:fixed32", "unknown:12:fixed64", "unknown:536870911:bytes", "reverse")
	for _, n := range []int{ipns.MaxRecordSize - 1, ipns.MaxRecordSize, ipns.MaxRecordSize + 1, ipns.MaxRecordSize + 100} {
		out = append(out, fmt.Sprintf("pad:%d", n))
	}
	return out
}

// ---- reference ----

type verdict struct {
	reasons         []string // why acceptance is not allowed (empty: acceptance allowed)
	sv              *signedVals
	pb              *ipns_pb.IpnsRecord
	legacyUnchecked bool // neither Value nor SignatureV1 present
}

func (v *verdict) has(prefix string) bool {
	for _, r := range v.reasons {
		if strings.HasPrefix(r, prefix) {
			return true
		}
	}
	return false
}

// judge computes the necessary conditions for accepting raw under name n.
func judge(raw []byte, n *keyInfo) *verdict {
	v := &verdict{}
	add := func(r string) { v.reasons = append(v.reasons, r) }
	if len(raw) > ipns.MaxRecordSize {
		add("size:over-limit")
	}
	m := &ipns_pb.IpnsRecord{}
	if err := proto.Unmarshal(raw, m); err != nil {
		add("protobuf:unparseable")
		return v
	}
	v.pb = m
	v.legacyUnchecked = len(m.Value) == 0 && len(m.SignatureV1) == 0
	if len(m.Data) == 0 || len(m.SignatureV2) == 0 {
		add("sig:missing-data-or-signature")
	} else if ok, err := n.pk.Verify(append([]byte(sigPrefix), m.Data...), m.SignatureV2); err != nil || !ok {
		add("sig:does-not-verify-under-name-key")
	} else {
		catalogMu.Lock()
		sv := catalog[n.typ+"\x00"+string(m.Data)]
		catalogMu.Unlock()
		if sv == nil {
			add("sig:forgery?-data-verifies-but-was-never-signed-by-the-harness")
			return v
		}
		v.sv = sv
		if sv.ambiguous != "" {
			add("data:ambiguous-" + sv.ambiguous)
		}
		if !sv.eol.After(now) {
			add("expiry:expired")
		}
		if len(m.Value) > 0 && string(m.Value) != sv.value {
			add("legacy:Value")
		}
		if len(m.Validity) > 0 && string(m.Validity) != sv.validity {
			add("legacy:Validity")
		}
		if m.ValidityType != nil && int64(*m.ValidityType) != sv.vtype {
			add("legacy:ValidityType")
		}
		if m.Sequence != nil && *m.Sequence != sv.seq {
			add("legacy:Sequence")
		}
		if m.Ttl != nil && *m.Ttl != sv.ttl {
			add("legacy:Ttl")
		}
	}
	if len(m.PubKey) > 0 {
		pk, err := ic.UnmarshalPublicKey(m.PubKey)
		if err != nil {
			add("key:embedded-key-unparseable")
		} else if id, err := peer.IDFromPublicKey(pk); err != nil || id != n.pid {
			add("key:embedded-key-is-not-the-name's")
		}
	}
	return v
}

// ---- a tiny KeyBook ----

type keyBook map[peer.ID]ic.PubKey

func (k keyBook) PubKey(p peer.ID) ic.PubKey              { return k[p] }
func (k keyBook) AddPubKey(p peer.ID, pk ic.PubKey) error { k[p] = pk; return nil }
func (k keyBook) PrivKey(peer.ID) ic.PrivKey              { return nil }
func (k keyBook) AddPrivKey(peer.ID, ic.PrivKey) error    { return nil }
func (k keyBook) PeersWithKeys() peer.IDSlice             { return nil }
func (k keyBook) RemovePeer(p peer.ID)                    { delete(k, p) }

// ---- one case ----

type caseDesc struct {
	Base string `json:"base"`
	Mut  string `json:"mutation"`
	Name string `json:"name"` // key type whose name the mutant is validated against
}

var entryPoints = []string{"Validate", "ValidateWithName", "Validator.Validate", "Validator.Validate+KeyBook"}

func runCase(r *eng.Run, c caseDesc, verbose bool) (string, []*eng.Violation) {
	b, n := baseMap[c.Base], keys[c.Name]
	if b == nil || n == nil {
		return "", []*eng.Violation{eng.V("bad-case", "", fmt.Sprintf("unknown base or name in %+v", c))}
	}
	raw := applyMut(b, c.Mut)
	ref := judge(raw, n)
	var viols []*eng.Violation
	accepted := make([]bool, len(entryPoints))
	var rec *ipns.Record
	var errs [4]error
	pv := eng.Guard("validate", func() {
		var err error
		rec, err = ipns.UnmarshalRecord(raw)
		if err != nil {
			errs[0], errs[1] = err, err
		} else {
			errs[0] = ipns.Validate(rec, n.pk)
			errs[1] = ipns.ValidateWithName(rec, n.name)
		}
		errs[2] = ipns.Validator{}.Validate(string(n.name.RoutingKey()), raw)
		errs[3] = ipns.Validator{KeyBook: keyBook{n.pid: n.pk}}.Validate(string(n.name.RoutingKey()), raw)
	})
	if pv != nil {
		return "panic", []*eng.Violation{pv}
	}
	for i := range entryPoints {
		accepted[i] = errs[i] == nil
	}
	if verbose {
		fmt.Printf("  mutant %d bytes; reference reasons against acceptance: %v\n", len(raw), ref.reasons)
		for i, ep := range entryPoints {
			fmt.Printf("  %-28s -> %v\n", ep, errs[i])
		}
	}
	mutKind := c.Mut
	if i := strings.IndexByte(mutKind, ':'); i > 0 {
		mutKind = mutKind[:i]
	}
	own := fmt.Sprint(c.Name == b.k.typ)
	anyAccepted := false
	for i, ep := range entryPoints {
		if !accepted[i] {
			continue
		}
		anyAccepted = true
		for _, reason := range ref.reasons {
			if ep == "Validate" && strings.HasPrefix(reason, "key:") {
				continue // Validate(rec, pk) is told the key by its caller; the embedded key plays no role
			}
			cls, what, _ := strings.Cut(reason, ":")
			feat := []string{"what", what, "own_name", own, "value_and_sigv1_absent", fmt.Sprint(ref.legacyUnchecked)}
			viols = append(viols, eng.V("accepted-"+cls+"-violation", ep,
				fmt.Sprintf("case %+v: %s accepted the record although: %s (all reasons %v)", c, ep, reason, ref.reasons), feat...))
		}
	}
	if c.Mut == "" && c.Name == b.k.typ && len(ref.reasons) == 0 {
		// premise of the whole check: the unmodified library record is accepted
		for i, ep := range entryPoints {
			needKey := ep == "ValidateWithName" || ep == "Validator.Validate"
			if !accepted[i] && (!needKey || b.embed || b.k.inlined) {
				viols = append(viols, eng.V("unmodified-library-record-rejected", ep, fmt.Sprintf("case %+v: %s = %v", c, ep, errs[i]), "key", b.k.typ))
			}
		}
		r.Add("unmodified_records_accepted", 1)
	}
	if anyAccepted && ref.sv != nil && rec != nil && ref.sv.ambiguous == "" {
		if v := checkAccessors(rec, ref.sv, n, c, accepted[1] || accepted[2] || accepted[3]); v != nil {
			viols = append(viols, v)
		}
	}
	// malleability bookkeeping: an accepted record whose v2 signature bytes differ from the library's
	if anyAccepted && len(ref.reasons) == 0 && c.Name == b.k.typ && ref.pb != nil && bytes.Equal(ref.pb.Data, b.pb.Data) && !bytes.Equal(ref.pb.SignatureV2, b.pb.SignatureV2) {
		how := "other"
		for _, v := range []string{"trailing", "negs", "foreignsigned", "noprefix", "sigv1"} {
			if strings.Contains(c.Mut, "SignatureV2="+v) {
				how = v
			}
		}
		r.Add("accepted_with_alternative_valid_sigv2_"+b.k.typ+"_"+how, 1)
	}
	rs := []string{}
	for _, x := range ref.reasons {
		cls, _, _ := strings.Cut(x, ":")
		rs = append(rs, cls)
	}
	sort.Strings(rs)
	return fmt.Sprintf("%s own=%s ref=%v acc=%v", mutKind, own, rs, accepted), viols
}

func checkAccessors(rec *ipns.Record, sv *signedVals, n *keyInfo, c caseDesc, byName bool) *eng.Violation {
	bad := func(acc, d string) *eng.Violation {
		return eng.V("accepted-record-accessor-differs-from-signed", acc, fmt.Sprintf("case %+v: %s", c, d), "accessor", acc)
	}
	if v, err := rec.Value(); err != nil || v.String() != sv.value {
		return bad("Value", fmt.Sprintf("Value()=%v,%v signed %s", v, err, sv.value))
	}
	if s, err := rec.Sequence(); err != nil || s != sv.seq {
		return bad("Sequence", fmt.Sprintf("Sequence()=%d,%v signed %d", s, err, sv.seq))
	}
	if e, err := rec.Validity(); err != nil || !e.Equal(sv.eol) {
		return bad("Validity", fmt.Sprintf("Validity()=%v,%v signed %v", e, err, sv.eol))
	}
	if t, err := rec.ValidityType(); err != nil || int64(t) != sv.vtype {
		return bad("ValidityType", fmt.Sprintf("ValidityType()=%v,%v signed %d", t, err, sv.vtype))
	}
	if t, err := rec.TTL(); err != nil || uint64(t) != sv.ttl {
		return bad("TTL", fmt.Sprintf("TTL()=%d,%v signed %d", t, err, sv.ttl))
	}
	for k := range rec.MetadataEntries() {
		return bad("MetadataEntries", fmt.Sprintf("metadata key %q reported, none was signed", k))
	}
	if !byName {
		// accepted only by Validate(rec, pk): the caller named the key, the embedded one was not examined
		return nil
	}
	if pk, err := rec.PubKey(); err == nil {
		if id, err := peer.IDFromPublicKey(pk); err != nil || id != n.pid {
			return bad("PubKey", "PubKey() of an accepted record is not the key of the name")
		}
	} else if !errors.Is(err, ipns.ErrPublicKeyNotFound) {
		return bad("PubKey", fmt.Sprintf("PubKey() error %v on an accepted record", err))
	}
	return nil
}

func body(r *eng.Run) {
	initBases()
	r.Rule("every base record (4 key types x v1-compat x embedded key x {normal, zero seq/ttl, expired} + hand-signed CBOR variants) x every catalogue mutation (identity; each protobuf field x {clear, empty, other record's value, other key's value, garbage, ...}; all pairs of such changes on two different fields; every byte of the serialization xor each mask; duplicate field appended/prepended for every field value; unknown fields; reversed field order; padding to MaxRecordSize-1/+0/+1/+100) x names {own, other key types} x 4 entry points; a case is non-trivial when the mutation is not the identity")
	r.Assume("libp2p PubKey.Verify / key (un)marshalling, protobuf-go and go-ipld-prime dag-cbor are the trusted base; 'signed by the key of that name' is decided with libp2p Verify, so this is exhaustive over the mutation catalogue, not a cryptographic argument")
	r.Assume("signature encodings that libp2p itself accepts as valid for the same data (ECDSA DER with trailing bytes, (r, n-s)) are valid signatures for the oracle; their acceptance is counted in accepted_with_alternative_valid_sigv2_*")
	r.Assume("a legacy bytes field that is present but empty is treated as absent")
	type job struct {
		b    *base
		muts []string
	}
	var cases []caseDesc
	th := r.Thorough()
	nMut := 0
	for _, b := range bases {
		muts := mutationsFor(b, th)
		nMut += len(muts)
		names := []string{b.k.typ, b.foreign.k.typ}
		if th {
			names = append([]string{b.k.typ}, without(keyTypes, b.k.typ)...)
		}
		for _, m := range muts {
			for i, n := range names {
				// byte flips are validated against other names only in the thorough tier
				if i > 0 && strings.HasPrefix(m, "flip:") && !th {
					continue
				}
				cases = append(cases, caseDesc{b.name, m, n})
			}
		}
	}
	r.Set("base_records", len(bases))
	r.Set("mutants", nMut)
	r.Set("single_field_mutations", len(singles()))
	eng.Shuffle(r, cases)
	const chunk = 256
	nch := (len(cases) + chunk - 1) / chunk
	eng.ParFor(nch, func(ci int) {
		if r.Expired() {
			return
		}
		hi := min((ci+1)*chunk, len(cases))
		for _, c := range cases[ci*chunk : hi] {
			out, vs := runCase(r, c, false)
			r.Eval(1)
			r.Outcome(out)
			if c.Mut != "" {
				r.Distinct(c.Base + "|" + c.Mut + "|" + c.Name)
			}
			for _, v := range vs {
				v.Replay = c
				r.Report(v)
			}
		}
	})
	if r.Expired() {
		r.Incomplete("budget expired inside the mutation product")
	}
	r.Sample(caseDesc{"ed25519.v2only.nopk.normal", "f:Sequence=plus1", "ed25519"})
	r.Sample(caseDesc{"rsa2048.v1v2.pk.normal", "f:SignatureV2=other;f:Data=other", "rsa2048"})
	r.Sample(caseDesc{"ecdsa.v1v2.pk.normal", "flip:17:128", "ecdsa"})
}

func without(xs []string, s string) []string {
	var out []string
	for _, x := range xs {
		if x != s {
			out = append(out, x)
		}
	}
	return out
}

func replay(r *eng.Run, raw json.RawMessage) {
	initBases()
	var c caseDesc
	if err := json.Unmarshal(raw, &c); err != nil {
		fmt.Println("bad replay:", err)
		return
	}
	fmt.Printf("  case %+v\n", c)
	out, vs := runCase(r, c, true)
	fmt.Printf("  outcome: %s\n", out)
	r.Eval(1)
	for _, v := range vs {
		v.Replay = c
		r.Report(v)
	}
}

func main() {
	eng.Main("C25", "exploration", body, replay)
}
